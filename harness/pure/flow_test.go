package pure

import (
	"fmt"
	"runtime/debug"
	"strings"
	"testing"

	"pgregory.net/rapid"

	"go.etcd.io/raft/v3/tracker"
	"verif/harness/report"
)

// C16, tracker level: the sliding window (tracker.Inflights, a growing ring
// buffer) and the per-follower replication state machine (tracker.Progress)
// against reference models written from their doc comments. The simulator
// checks the same limits on the wire, but with windows of 1..256 messages
// and a handful in flight it rarely wraps or grows the ring; here windows of
// every size are filled, drained and wrapped.

func v16(t interface{ Fatalf(string, ...any) }, sig, format string, a ...any) {
	t.Fatalf("VIOLATION[C16/%s sig=%s step=0]: %s", sig, "c16."+sig, fmt.Sprintf(format, a...))
}

type inflModel struct {
	size     int
	maxBytes uint64
	q        [][2]uint64 // (index, bytes) oldest first
}

func (m *inflModel) bytes() (b uint64) {
	for _, e := range m.q {
		b += e[1]
	}
	return b
}
func (m *inflModel) full() bool {
	return len(m.q) == m.size || (m.maxBytes != 0 && m.bytes() >= m.maxBytes)
}
func (m *inflModel) freeLE(to uint64) {
	k := 0
	for k < len(m.q) && m.q[k][0] <= to {
		k++
	}
	m.q = m.q[k:]
}

// trackerPanic turns a panic raised inside package tracker into a violation
// (a wrapped ring index, an Add on a window the model says has room ...).
func trackerPanic(rt *rapid.T, what string, trace *[]string) {
	if r := recover(); r != nil {
		msg := fmt.Sprint(r)
		if strings.Contains(msg, "VIOLATION[") || strings.Contains(fmt.Sprintf("%T", r), "rapid") {
			panic(r)
		}
		if stack := string(debug.Stack()); strings.Contains(stack, "go.etcd.io/raft/v3/tracker.") {
			v16(rt, what+".panic", "tracker panicked: %s (%s)", msg, strings.Join(*trace, " "))
		}
		panic(r)
	}
}

func inflightsProp(rep *report.R) func(*rapid.T) {
	failed := false
	return func(rt *rapid.T) {
		var trace []string
		defer trackerPanic(rt, "inflights", &trace)
		size := rapid.SampledFrom([]int{1, 2, 3, 4, 5, 7, 8, 9, 16, 17, 33, 256}).Draw(rt, "size")
		maxBytes := rapid.SampledFrom([]uint64{0, 0, 1, 10, 100, 1000}).Draw(rt, "maxBytes")
		in := tracker.NewInflights(size, maxBytes)
		m := &inflModel{size: size, maxBytes: maxBytes}
		next := uint64(1)
		wrapped, grew, byteFull := false, false, false
		adds := 0
		n := rapid.IntRange(1, 120).Draw(rt, "ops")
		check := func(when string) {
			if in.Count() != len(m.q) {
				failed = true
				v16(rt, "inflights.count", "%s: Count()=%d, model %d (size %d maxBytes %d; %s)", when, in.Count(), len(m.q), size, maxBytes, strings.Join(trace, " "))
			}
			if in.Full() != m.full() {
				failed = true
				v16(rt, "inflights.full", "%s: Full()=%v, model %v with %d messages / %d bytes (size %d maxBytes %d; %s)", when, in.Full(), m.full(), len(m.q), m.bytes(), size, maxBytes, strings.Join(trace, " "))
			}
		}
		for i := 0; i < n; i++ {
			switch op := rapid.IntRange(0, 9).Draw(rt, "op"); {
			case op <= 5: // add (bursts fill the window)
				burst := rapid.IntRange(1, 1+size).Draw(rt, "burst")
				for b := 0; b < burst && !m.full(); b++ {
					next += uint64(rapid.IntRange(1, 3).Draw(rt, "gap"))
					by := uint64(rapid.SampledFrom([]int{0, 1, 5, 50, 500}).Draw(rt, "bytes"))
					trace = append(trace, fmt.Sprintf("Add(%d,%d)", next, by))
					in.Add(next, by)
					m.q = append(m.q, [2]uint64{next, by})
					adds++
					if adds > size {
						wrapped = true
					}
					if len(m.q) > 1 {
						grew = true
					}
					if maxBytes != 0 && m.bytes() >= maxBytes && len(m.q) < size {
						byteFull = true
					}
					check("after Add")
				}
			case op <= 8: // free a prefix (any value, also stale and beyond)
				var to uint64
				switch rapid.IntRange(0, 3).Draw(rt, "towhat") {
				case 0:
					to = uint64(rapid.IntRange(0, int(next)+2).Draw(rt, "to"))
				case 1:
					if len(m.q) > 0 {
						to = m.q[rapid.IntRange(0, len(m.q)-1).Draw(rt, "k")][0]
					}
				case 2:
					if len(m.q) > 0 {
						to = m.q[len(m.q)-1][0]
					}
				default:
					if len(m.q) > 0 {
						to = m.q[0][0] - 1
					}
				}
				trace = append(trace, fmt.Sprintf("FreeLE(%d)", to))
				in.FreeLE(to)
				m.freeLE(to)
				check("after FreeLE")
			default: // continue on a clone; the original must be unaffected by it
				trace = append(trace, "Clone")
				cl := in.Clone()
				if !m.full() {
					cl.Add(next+100, 1)
					check("original after Add on its clone")
				}
				in = in.Clone()
				check("after Clone")
			}
		}
		if !failed {
			var cls []string
			if wrapped {
				cls = append(cls, "inflights.ring_wrapped")
			}
			if grew {
				cls = append(cls, "inflights.buffer_grew")
			}
			if byteFull {
				cls = append(cls, "inflights.full_by_bytes")
			}
			rep.Case(wrapped || byteFull, report.Digest(fmt.Sprintf("%d/%d/%s", size, maxBytes, strings.Join(trace, ";"))), cls,
				func() string {
					return fmt.Sprintf("Inflights(size %d, maxBytes %d): %s", size, maxBytes, strings.Join(trace, " "))
				})
		}
	}
}

// progress reference model (tracker/progress.go doc comments).
type prModel struct {
	match, next uint64
	state       tracker.StateType
	pending     uint64
	paused      bool // MsgAppFlowPaused
	infl        inflModel
}

func (p *prModel) reset(st tracker.StateType) {
	p.paused, p.pending, p.state = false, 0, st
	p.infl.q = nil
}
func (p *prModel) isPaused() bool { return p.state == tracker.StateSnapshot || p.paused }

func progressProp(rep *report.R) func(*rapid.T) {
	failed := false
	return func(rt *rapid.T) {
		var trace []string
		defer trackerPanic(rt, "progress", &trace)
		size := rapid.SampledFrom([]int{1, 2, 3, 8}).Draw(rt, "size")
		maxBytes := rapid.SampledFrom([]uint64{0, 0, 20, 200}).Draw(rt, "maxBytes")
		pr := &tracker.Progress{Match: 0, Next: 1, Inflights: tracker.NewInflights(size, maxBytes)}
		m := &prModel{match: 0, next: 1, state: tracker.StateProbe, infl: inflModel{size: size, maxBytes: maxBytes}}
		snapCycle, decr, stale, fullPause := false, false, false, false
		check := func(when string) {
			bad := ""
			switch {
			case pr.Match != m.match:
				bad = fmt.Sprintf("Match=%d, model %d", pr.Match, m.match)
			case pr.Next != m.next:
				bad = fmt.Sprintf("Next=%d, model %d", pr.Next, m.next)
			case pr.State != m.state:
				bad = fmt.Sprintf("State=%v, model %v", pr.State, m.state)
			case pr.PendingSnapshot != m.pending:
				bad = fmt.Sprintf("PendingSnapshot=%d, model %d", pr.PendingSnapshot, m.pending)
			case pr.IsPaused() != m.isPaused():
				bad = fmt.Sprintf("IsPaused=%v, model %v", pr.IsPaused(), m.isPaused())
			case pr.Inflights.Count() != len(m.infl.q):
				bad = fmt.Sprintf("Inflights.Count=%d, model %d", pr.Inflights.Count(), len(m.infl.q))
			case pr.Match >= pr.Next:
				bad = fmt.Sprintf("invariant Match < Next broken: %d >= %d", pr.Match, pr.Next)
			}
			if bad != "" {
				failed = true
				v16(rt, "progress.model", "%s: %s (%s)", when, bad, strings.Join(trace, " "))
			}
		}
		n := rapid.IntRange(1, 60).Draw(rt, "ops")
		for i := 0; i < n; i++ {
			switch rapid.IntRange(0, 9).Draw(rt, "op") {
			case 0:
				trace = append(trace, "BecomeProbe")
				pr.BecomeProbe()
				if m.state == tracker.StateSnapshot {
					ps := m.pending
					m.reset(tracker.StateProbe)
					m.next = max(m.match+1, ps+1)
					snapCycle = true
				} else {
					m.reset(tracker.StateProbe)
					m.next = m.match + 1
				}
			case 1:
				trace = append(trace, "BecomeReplicate")
				pr.BecomeReplicate()
				m.reset(tracker.StateReplicate)
				m.next = m.match + 1
			case 2:
				si := m.match + uint64(rapid.IntRange(1, 6).Draw(rt, "snap"))
				trace = append(trace, fmt.Sprintf("BecomeSnapshot(%d)", si))
				pr.BecomeSnapshot(si)
				m.reset(tracker.StateSnapshot)
				m.pending, m.next = si, si+1
			case 3, 4, 5: // send (only when the leader would: not paused)
				if m.isPaused() || (m.state == tracker.StateReplicate && m.infl.full()) {
					continue
				}
				ents := rapid.IntRange(0, 3).Draw(rt, "ents")
				by := uint64(rapid.SampledFrom([]int{0, 5, 30}).Draw(rt, "bytes"))
				trace = append(trace, fmt.Sprintf("SentEntries(%d,%d)", ents, by))
				pr.SentEntries(ents, by)
				switch m.state {
				case tracker.StateReplicate:
					if ents > 0 {
						m.next += uint64(ents)
						m.infl.q = append(m.infl.q, [2]uint64{m.next - 1, by})
					}
					m.paused = m.infl.full()
					if m.paused {
						fullPause = true
					}
				case tracker.StateProbe:
					if ents > 0 {
						m.paused = true
					}
				}
			case 6, 7: // acknowledgement (also stale ones), freeing the window like stepLeader does
				idx := uint64(rapid.IntRange(0, int(m.next)+1).Draw(rt, "ack"))
				trace = append(trace, fmt.Sprintf("MaybeUpdate(%d)", idx))
				got := pr.MaybeUpdate(idx)
				want := idx > m.match
				if want {
					m.match = idx
					m.next = max(m.next, idx+1)
					m.paused = false
				} else {
					stale = true
				}
				if got != want {
					failed = true
					v16(rt, "progress.maybe_update", "MaybeUpdate(%d) returned %v with Match %d (%s)", idx, got, m.match, strings.Join(trace, " "))
				}
				pr.Inflights.FreeLE(idx)
				m.infl.freeLE(idx)
			default: // rejection (also stale ones)
				rej := uint64(rapid.IntRange(0, int(m.next)+1).Draw(rt, "rej"))
				if rapid.Bool().Draw(rt, "exact") && m.next > 0 {
					rej = m.next - 1
				}
				hint := uint64(rapid.IntRange(0, int(m.next)+1).Draw(rt, "hint"))
				trace = append(trace, fmt.Sprintf("MaybeDecrTo(%d,%d)", rej, hint))
				before := m.next
				got := pr.MaybeDecrTo(rej, hint)
				want := false
				if m.state == tracker.StateReplicate {
					if rej > m.match {
						want = true
						m.next = m.match + 1
					}
				} else if m.next-1 == rej {
					want = true
					m.next = max(min(rej, hint+1), m.match+1)
					m.paused = false
				}
				if want {
					decr = true
				} else {
					stale = true
				}
				if got != want {
					failed = true
					v16(rt, "progress.maybe_decr", "MaybeDecrTo(%d,%d) returned %v in %v with Match %d Next %d (%s)", rej, hint, got, m.state, m.match, before, strings.Join(trace, " "))
				}
				if pr.Next > before {
					failed = true
					v16(rt, "progress.maybe_decr", "MaybeDecrTo(%d,%d) raised Next %d -> %d (%s)", rej, hint, before, pr.Next, strings.Join(trace, " "))
				}
			}
			check("after " + trace[len(trace)-1])
		}
		if !failed {
			var cls []string
			if snapCycle {
				cls = append(cls, "progress.snapshot_to_probe")
			}
			if decr {
				cls = append(cls, "progress.rejection_applied")
			}
			if stale {
				cls = append(cls, "progress.stale_response")
			}
			if fullPause {
				cls = append(cls, "progress.paused_by_full_window")
			}
			rep.Case(snapCycle || (decr && stale) || fullPause, report.Digest(fmt.Sprintf("%d/%d/%s", size, maxBytes, strings.Join(trace, ";"))), cls,
				func() string {
					return fmt.Sprintf("Progress(window %d, %d bytes): %s", size, maxBytes, strings.Join(trace, " "))
				})
		}
	}
}

const ruleFlow = "tracker level: (a) Inflights of sizes 1..256 with byte limits driven by bursts of Add (increasing indexes) / FreeLE (any value: stale, exact, beyond) / Clone against a queue model (Count and Full after every operation; non-trivial = the ring wrapped around or filled up by bytes); (b) Progress driven by BecomeProbe/Replicate/Snapshot, SentEntries (only when not paused, like the leader), MaybeUpdate + FreeLE, MaybeDecrTo (exact and stale rejections) against a model written from the doc comments (Match, Next, State, PendingSnapshot, IsPaused, window count after every operation; Match < Next; a rejection never raises Next); distinct = digest of the operation sequence"

func TestC16Flow(t *testing.T) {
	rep := report.New("C16", ruleFlow)
	defer rep.Write()
	t.Run("Inflights", func(t *testing.T) { rapid.Check(t, inflightsProp(rep)) })
	t.Run("Progress", func(t *testing.T) { rapid.Check(t, progressProp(rep)) })
}
