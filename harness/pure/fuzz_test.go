package pure

import (
	"testing"

	"pgregory.net/rapid"

	"verif/harness/report"
)

// Native fuzz targets (thorough tier), see logm/fuzz_test.go.
func FuzzC12(f *testing.F) { f.Fuzz(rapid.MakeFuzz(c12Prop(report.New("C12", "fuzz")))) }
func FuzzC13(f *testing.F) { f.Fuzz(rapid.MakeFuzz(c13Prop(report.New("C13", "fuzz")))) }
