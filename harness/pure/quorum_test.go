// Package pure holds the function-level property tests (C12, C13): the
// implementation is compared with the reference models of package refmodel
// on exhaustively enumerated small domains and on rapid-generated large ones.
package pure

import (
	"fmt"
	"math"
	"os"
	"sort"
	"testing"

	"pgregory.net/rapid"

	"go.etcd.io/raft/v3/quorum"
	"go.etcd.io/raft/v3/tracker"
	"verif/harness/refmodel"
	"verif/harness/report"
)

type ackMap map[uint64]uint64

func (a ackMap) AckedIndex(id uint64) (quorum.Index, bool) {
	v, ok := a[id]
	return quorum.Index(v), ok
}

func mc(ids []uint64) quorum.MajorityConfig {
	m := quorum.MajorityConfig{}
	for _, id := range ids {
		m[id] = struct{}{}
	}
	return m
}

func toRef(v quorum.VoteResult) refmodel.VoteResult {
	switch v {
	case quorum.VoteWon:
		return refmodel.Won
	case quorum.VoteLost:
		return refmodel.Lost
	}
	return refmodel.Pending
}

func subsets(ids []uint64) [][]uint64 {
	var out [][]uint64
	for mask := 0; mask < 1<<len(ids); mask++ {
		var s []uint64
		for i, id := range ids {
			if mask&(1<<i) != 0 {
				s = append(s, id)
			}
		}
		out = append(out, s)
	}
	return out
}

func violation(t interface{ Fatalf(string, ...any) }, sig, format string, a ...any) {
	t.Fatalf("VIOLATION[C12/%s sig=%s step=0]: %s", sig, "c12."+sig, fmt.Sprintf(format, a...))
}

// TestC12Exhaustive enumerates every voter set over ids {1..6} with every ack
// vector over {missing,0,1,2,3} and every vote vector over {missing,yes,no},
// and every pair of sets over ids {1..4} for the joint functions.
func TestC12Exhaustive(t *testing.T) {
	rep := report.New("C12", "exhaustive part: every voter set over ids {1..6} x every ack vector in {missing,0,1,2,3}^6 and vote vector in {missing,yes,no}^6; every pair of voter sets over ids {1..4} x every ack/vote vector (joint functions); non-trivial = set non-empty and not all values equal; every enumerated tuple is distinct by construction")
	defer rep.Write()
	ids6 := []uint64{1, 2, 3, 4, 5, 6}
	sets6 := subsets(ids6)
	nontriv := 0
	// majority commit
	vals := []int{-1, 0, 1, 2, 3}
	var rec func(i int, acks ackMap)
	ackVec := func(n int, f func(ackMap, bool)) {
		idx := make([]int, n)
		for {
			a := ackMap{}
			allEq := true
			for i := 0; i < n; i++ {
				if vals[idx[i]] >= 0 {
					a[uint64(i+1)] = uint64(vals[idx[i]])
				}
				if idx[i] != idx[0] {
					allEq = false
				}
			}
			f(a, allEq)
			k := 0
			for k < n {
				idx[k]++
				if idx[k] < len(vals) {
					break
				}
				idx[k] = 0
				k++
			}
			if k == n {
				break
			}
		}
	}
	_ = rec
	ackVec(6, func(a ackMap, allEq bool) {
		for _, s := range sets6 {
			got := uint64(mc(s).CommittedIndex(a))
			want := refmodel.CommittedIndex(s, a)
			rep.Evaluations++
			if len(s) > 0 && !allEq {
				nontriv++
			}
			if got != want {
				violation(t, "majority_commit", "MajorityConfig%v.CommittedIndex(%v) = %d, reference %d", s, a, got, want)
			}
		}
	})
	// majority vote
	voteVec := func(n int, f func(map[uint64]bool, bool)) {
		idx := make([]int, n)
		for {
			v := map[uint64]bool{}
			allEq := true
			for i := 0; i < n; i++ {
				switch idx[i] {
				case 1:
					v[uint64(i+1)] = true
				case 2:
					v[uint64(i+1)] = false
				}
				if idx[i] != idx[0] {
					allEq = false
				}
			}
			f(v, allEq)
			k := 0
			for k < n {
				idx[k]++
				if idx[k] < 3 {
					break
				}
				idx[k] = 0
				k++
			}
			if k == n {
				break
			}
		}
	}
	voteVec(6, func(v map[uint64]bool, allEq bool) {
		for _, s := range sets6 {
			got := toRef(mc(s).VoteResult(v))
			want := refmodel.Vote(s, v)
			rep.Evaluations++
			if len(s) > 0 && !allEq {
				nontriv++
			}
			if got != want {
				violation(t, "majority_vote", "MajorityConfig%v.VoteResult(%v) = %v, reference %v", s, v, got, want)
			}
		}
	})
	// joint
	ids4 := []uint64{1, 2, 3, 4}
	sets4 := subsets(ids4)
	ackVec(4, func(a ackMap, allEq bool) {
		for _, in := range sets4 {
			for _, out := range sets4 {
				got := uint64(quorum.JointConfig{mc(in), mc(out)}.CommittedIndex(a))
				want := refmodel.JointCommittedIndex(in, out, a)
				rep.Evaluations++
				if len(in)+len(out) > 0 && !allEq {
					nontriv++
				}
				if got != want {
					violation(t, "joint_commit", "JointConfig{%v,%v}.CommittedIndex(%v) = %d, reference %d", in, out, a, got, want)
				}
			}
		}
	})
	voteVec(4, func(v map[uint64]bool, allEq bool) {
		for _, in := range sets4 {
			for _, out := range sets4 {
				got := toRef(quorum.JointConfig{mc(in), mc(out)}.VoteResult(v))
				want := refmodel.JointVote(in, out, v)
				rep.Evaluations++
				if len(in)+len(out) > 0 && !allEq {
					nontriv++
				}
				if got != want {
					violation(t, "joint_vote", "JointConfig{%v,%v}.VoteResult(%v) = %v, reference %v", in, out, v, got, want)
				}
			}
		}
	})
	rep.NonTrivial = nontriv
	rep.DistinctCount = nontriv
	rep.Extra["exhaustive_part"] = true
	rep.Extra["exhaustive_domain"] = "voter sets over {1..6} (joint: pairs over {1..4}) x acks {missing,0..3} / votes {missing,yes,no}"
	rep.Samples = append(rep.Samples, "set=[1 2 3 4] acks={1:3 2:1 4:2} -> 1 ; joint in=[1 2] out=[3] votes={1:yes 3:no} -> Lost")
}

var hostile = []uint64{0, 1, 2, 3, 5, 1 << 32, math.MaxUint64 - 1, math.MaxUint64}

func genID() *rapid.Generator[uint64] {
	return rapid.OneOf(rapid.Uint64Range(1, 20), rapid.SampledFrom(hostile[1:]))
}

func genIndex() *rapid.Generator[uint64] {
	return rapid.OneOf(rapid.Uint64Range(0, 12), rapid.SampledFrom(hostile))
}

func genSet(t *rapid.T, label string) []uint64 {
	m := rapid.MapOfN(genID(), rapid.Just(true), 0, 15).Draw(t, label)
	s := refmodel.SortedKeys(m)
	return s
}

// TestC12 is the rapid part: large sets (crossing the 7-element on-stack
// path), hostile ids and indexes, acks/votes for non-members, metamorphic
// relations.
func TestC12(t *testing.T) {
	rep := report.New("C12", "random part: voter sets of size 0..15, ids and indexes from {small, 2^32, MaxUint64-1, MaxUint64}, acks/votes also for non-members; each case is also evaluated through tracker.ProgressTracker (Committed from Match, TallyVotes, QuorumActive from RecentActive, with a learner present); non-trivial = non-empty set and >=2 distinct ack values (or >=1 missing vote); distinct = digest of (sets, acks, votes)")
	defer rep.Write()
	rapid.Check(t, c12Prop(rep))
}

func c12Prop(rep *report.R) func(*rapid.T) {
	failed := false
	return func(rt *rapid.T) {
		in := genSet(rt, "in")
		out := []uint64(nil)
		if rapid.Bool().Draw(rt, "joint") {
			out = genSet(rt, "out")
		}
		universe := append(append([]uint64{}, in...), out...)
		acks := ackMap{}
		votes := map[uint64]bool{}
		distinctVals := map[uint64]bool{}
		missing := 0
		for _, id := range universe {
			if rapid.IntRange(0, 4).Draw(rt, "hasack") > 0 {
				v := genIndex().Draw(rt, "ack")
				acks[id] = v
				distinctVals[v] = true
			}
			switch rapid.IntRange(0, 2).Draw(rt, "vote") {
			case 0:
				missing++
			case 1:
				votes[id] = true
			case 2:
				votes[id] = false
			}
		}
		// noise: non-members
		for i := 0; i < rapid.IntRange(0, 3).Draw(rt, "noise"); i++ {
			id := rapid.Uint64Range(100, 110).Draw(rt, "noiseid")
			acks[id] = genIndex().Draw(rt, "noiseack")
			votes[id] = rapid.Bool().Draw(rt, "noisevote")
		}
		jc := quorum.JointConfig{mc(in), mc(out)}
		if len(out) == 0 && rapid.Bool().Draw(rt, "nilout") {
			jc[1] = nil
		}
		gotC := uint64(jc.CommittedIndex(acks))
		wantC := refmodel.JointCommittedIndex(in, out, acks)
		gotV := toRef(jc.VoteResult(votes))
		wantV := refmodel.JointVote(in, out, votes)
		nontrivial := len(in) > 0 && (len(distinctVals) >= 2 || missing > 0)
		if !failed {
			var cls []string
			if len(in) > 7 || len(out) > 7 {
				cls = append(cls, "set_larger_than_stack_path")
			}
			if len(out) > 0 {
				cls = append(cls, "joint")
			}
			rep.Case(nontrivial, report.Digest(fmt.Sprint(in, out, acks, votes)), cls, func() string {
				return fmt.Sprintf("in=%v out=%v acks=%v votes=%v -> commit %d vote %v", in, out, acks, votes, gotC, gotV)
			})
		}
		fail := func(sig, f string, a ...any) {
			failed = true
			violation(rt, sig, f, a...)
		}
		if gotC != wantC {
			fail("joint_commit", "JointConfig{%v,%v}.CommittedIndex(%v) = %d, reference %d", in, out, acks, gotC, wantC)
		}
		if gotV != wantV {
			fail("joint_vote", "JointConfig{%v,%v}.VoteResult(%v) = %v, reference %v", in, out, votes, gotV, wantV)
		}
		if a, b := uint64(mc(in).CommittedIndex(acks)), refmodel.CommittedIndex(in, acks); a != b {
			fail("majority_commit", "MajorityConfig%v.CommittedIndex(%v) = %d, reference %d", in, acks, a, b)
		}
		if a, b := toRef(mc(in).VoteResult(votes)), refmodel.Vote(in, votes); a != b {
			fail("majority_vote", "MajorityConfig%v.VoteResult(%v) = %v, reference %v", in, votes, a, b)
		}
		// metamorphic: raising one ack never lowers the result
		if len(universe) > 0 {
			id := universe[rapid.IntRange(0, len(universe)-1).Draw(rt, "raise")]
			a2 := ackMap{}
			for k, v := range acks {
				a2[k] = v
			}
			if a2[id] < math.MaxUint64 {
				a2[id] = a2[id] + 1
			}
			if c2 := uint64(jc.CommittedIndex(a2)); c2 < gotC {
				fail("monotone_commit", "raising the ack of %d lowered the committed index %d -> %d (sets %v %v, acks %v)", id, gotC, c2, in, out, acks)
			}
			// adding a yes never turns Won into anything else
			if gotV == refmodel.Won {
				v2 := map[uint64]bool{}
				for k, v := range votes {
					v2[k] = v
				}
				v2[id] = true
				if r2 := toRef(jc.VoteResult(v2)); r2 != refmodel.Won {
					fail("monotone_vote", "adding a yes from %d turned Won into %v", id, r2)
				}
			}
		}
		// the same decisions as made through tracker.ProgressTracker (commit
		// index from Match, vote tally, CheckQuorum activity)
		{
			trk := tracker.MakeProgressTracker(4, 0)
			trk.Voters = quorum.JointConfig{mc(in), mc(out)}
			if len(out) == 0 {
				trk.Voters[1] = nil
			}
			active := map[uint64]bool{}
			match := ackMap{}
			for _, id := range universe {
				pr := &tracker.Progress{Match: acks[id], Next: acks[id] + 1, Inflights: tracker.NewInflights(4, 0)}
				if acks[id] == math.MaxUint64 {
					pr.Match, pr.Next = acks[id]-1, acks[id]
				}
				match[id] = pr.Match
				pr.RecentActive = rapid.Bool().Draw(rt, "active")
				active[id] = pr.RecentActive
				trk.Progress[id] = pr
			}
			// a learner (never a voter) must not influence any decision
			if rapid.Bool().Draw(rt, "learner") {
				lid := uint64(rapid.IntRange(200, 205).Draw(rt, "learnerid"))
				trk.Learners = map[uint64]struct{}{lid: {}}
				trk.Progress[lid] = &tracker.Progress{Match: genIndex().Draw(rt, "lmatch") / 2, IsLearner: true, RecentActive: rapid.Bool().Draw(rt, "lactive"), Inflights: tracker.NewInflights(4, 0)}
			}
			if got, want := trk.Committed(), refmodel.JointCommittedIndex(in, out, match); got != want && len(in) > 0 {
				fail("tracker_commit", "ProgressTracker(%v,%v).Committed() with matches %v = %d, reference %d", in, out, match, got, want)
			}
			for id, v := range votes {
				trk.RecordVote(id, v)
			}
			if _, _, res := trk.TallyVotes(); toRef(res) != wantV {
				fail("tracker_tally", "ProgressTracker(%v,%v).TallyVotes() with votes %v = %v, reference %v", in, out, votes, toRef(res), wantV)
			}
			wantActive := refmodel.HasMajority(in, active) && refmodel.HasMajority(out, active)
			if got := trk.QuorumActive(); got != wantActive && len(in) > 0 {
				fail("tracker_quorum_active", "ProgressTracker(%v,%v).QuorumActive() with recently active %v = %v, reference (majority of every set) %v", in, out, refmodel.SortedKeys(active), got, wantActive)
			}
		}
		// insertion order independence: rebuild the config in reverse order
		rin := append([]uint64{}, in...)
		sort.Slice(rin, func(i, j int) bool { return rin[i] > rin[j] })
		if c3 := uint64(mc(rin).CommittedIndex(acks)); c3 != uint64(mc(in).CommittedIndex(acks)) {
			fail("order_independent", "result depends on map insertion order")
		}
	}
}

var _ = os.Getenv
