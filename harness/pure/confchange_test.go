package pure

import (
	"fmt"
	"os"
	"sort"
	"strings"
	"testing"

	"google.golang.org/protobuf/proto"
	"pgregory.net/rapid"

	"go.etcd.io/raft/v3/confchange"
	pb "go.etcd.io/raft/v3/raftpb"
	"go.etcd.io/raft/v3/tracker"
	"verif/harness/refmodel"
	"verif/harness/report"
)

func v13(t interface{ Fatalf(string, ...any) }, sig, format string, a ...any) {
	t.Fatalf("VIOLATION[C13/%s sig=%s step=0]: %s", sig, "c13."+sig, fmt.Sprintf(format, a...))
}

// trackerFor builds a tracker holding cfg through confchange.Restore.
func trackerFor(c refmodel.Conf) (tracker.ProgressTracker, error) {
	trk := tracker.MakeProgressTracker(4, 0)
	cfg, prs, err := confchange.Restore(confchange.Changer{Tracker: trk, LastIndex: 10}, c.ConfState())
	if err != nil {
		return trk, err
	}
	trk.Config, trk.Progress = cfg, prs
	return trk, nil
}

func confOfTracker(cfg tracker.Config) refmodel.Conf {
	c := refmodel.NewConf()
	for id := range cfg.Voters[0] {
		c.Voters[id] = true
	}
	for id := range cfg.Voters[1] {
		c.Outgoing[id] = true
	}
	for id := range cfg.Learners {
		c.Learners[id] = true
	}
	for id := range cfg.LearnersNext {
		c.LearnersNext[id] = true
	}
	c.AutoLeave = cfg.AutoLeave
	return c
}

// snapshotTracker renders a tracker (config + progress) for deep comparison.
func snapshotTracker(t tracker.ProgressTracker) string {
	var ids []uint64
	for id := range t.Progress {
		ids = append(ids, id)
	}
	sort.Slice(ids, func(i, j int) bool { return ids[i] < ids[j] })
	var sb strings.Builder
	sb.WriteString(t.Config.String())
	for _, id := range ids {
		p := t.Progress[id]
		fmt.Fprintf(&sb, "|%d:%d,%d,%v,%v,%v", id, p.Match, p.Next, p.State, p.IsLearner, p.RecentActive)
	}
	return sb.String()
}

// applyImpl dispatches a V2 change exactly like raft.applyConfChange.
func applyImpl(trk tracker.ProgressTracker, cc *pb.ConfChangeV2) (tracker.Config, tracker.ProgressMap, error) {
	ch := confchange.Changer{Tracker: trk, LastIndex: 10}
	if cc.LeaveJoint() {
		return ch.LeaveJoint()
	} else if autoLeave, ok := cc.EnterJoint(); ok {
		return ch.EnterJoint(autoLeave, cc.Changes...)
	}
	return ch.Simple(cc.Changes...)
}

// directOp is a direct call of one of the three Changer operations with
// arbitrary arguments (the public API of package confchange), as opposed to
// the dispatch raft.applyConfChange performs on a ConfChangeV2: through the
// dispatch Simple only ever sees <= 1 single, EnterJoint never sees an
// auto-transition with one single.
type directOp struct {
	Kind      refmodel.Kind
	AutoLeave bool
	cc        *pb.ConfChangeV2 // carries the singles (and, for dispatch, the transition)
	Direct    bool
}

func (o directOp) String() string {
	if !o.Direct {
		return descCC(o.cc)
	}
	switch o.Kind {
	case refmodel.KindLeaveJoint:
		return "LeaveJoint()"
	case refmodel.KindEnterJoint:
		return fmt.Sprintf("EnterJoint(%v, %s)", o.AutoLeave, pb.ConfChangesToString(o.cc.GetChanges()))
	}
	return fmt.Sprintf("Simple(%s)", pb.ConfChangesToString(o.cc.GetChanges()))
}

func dispatchOp(cc *pb.ConfChangeV2) directOp {
	k, al := refmodel.Classify(cc)
	return directOp{Kind: k, AutoLeave: al, cc: cc}
}

// checkStep applies cc to (trk ~ model) with both implementations and
// compares. Returns the next tracker/model (unchanged on rejection), whether
// the change was accepted, and an error description if a check failed.
func checkStep(trk tracker.ProgressTracker, model refmodel.Conf, cc *pb.ConfChangeV2) (tracker.ProgressTracker, refmodel.Conf, bool, string, string) {
	return checkOp(trk, model, dispatchOp(cc))
}

func checkOp(trk tracker.ProgressTracker, model refmodel.Conf, op directOp) (tracker.ProgressTracker, refmodel.Conf, bool, string, string) {
	cc := op.cc
	descCC := func(*pb.ConfChangeV2) string { return op.String() }
	before := snapshotTracker(trk)
	var cfg tracker.Config
	var prs tracker.ProgressMap
	var err, werr error
	var want refmodel.Conf
	if !op.Direct {
		cfg, prs, err = applyImpl(trk, cc)
		want, werr = model.Apply(cc)
	} else {
		ch := confchange.Changer{Tracker: trk, LastIndex: 10}
		switch op.Kind {
		case refmodel.KindLeaveJoint:
			cfg, prs, err = ch.LeaveJoint()
			want, werr = model.LeaveJoint()
		case refmodel.KindEnterJoint:
			cfg, prs, err = ch.EnterJoint(op.AutoLeave, cc.GetChanges()...)
			want, werr = model.EnterJoint(op.AutoLeave, refmodel.Singles(cc)...)
		default:
			cfg, prs, err = ch.Simple(cc.GetChanges()...)
			want, werr = model.Simple(refmodel.Singles(cc)...)
		}
	}
	if after := snapshotTracker(trk); after != before {
		return trk, model, false, "input_untouched", fmt.Sprintf("applying %s to %s changed the input tracker: %s -> %s (err=%v)", descCC(cc), model, before, after, err)
	}
	if (err == nil) != (werr == nil) {
		return trk, model, false, "accept_reject_agrees", fmt.Sprintf("change %s on %s: implementation err=%v, reference err=%v", descCC(cc), model, err, werr)
	}
	if err != nil {
		return trk, model, false, "", ""
	}
	got := confOfTracker(cfg)
	if !got.Equal(want) {
		return trk, model, false, "result_agrees", fmt.Sprintf("change %s on %s: implementation yields %s, reference %s", descCC(cc), model, got, want)
	}
	if ierr := got.CheckInvariants(); ierr != nil {
		return trk, model, false, "invariants", fmt.Sprintf("change %s on %s yields %s violating: %v", descCC(cc), model, got, ierr)
	}
	if len(cfg.Voters[0]) == 0 {
		return trk, model, false, "no_voter_left", fmt.Sprintf("change %s on %s leaves no incoming voter", descCC(cc), model)
	}
	// progress records: exactly the members, learner flag iff in Learners
	members := got.Members()
	if len(prs) != len(members) {
		return trk, model, false, "progress_keys", fmt.Sprintf("change %s on %s: %d progress records for members %v", descCC(cc), model, len(prs), members)
	}
	for _, id := range members {
		p := prs[id]
		if p == nil {
			return trk, model, false, "progress_keys", fmt.Sprintf("change %s on %s: member %d has no progress", descCC(cc), model, id)
		}
		if p.IsLearner != got.Learners[id] {
			return trk, model, false, "progress_learner_flag", fmt.Sprintf("change %s on %s: member %d IsLearner=%v but learners=%v", descCC(cc), model, id, p.IsLearner, refmodel.SortedKeys(got.Learners))
		}
	}
	if op.Kind == refmodel.KindSimple {
		n := 0
		for id := range got.Voters {
			if !model.Voters[id] {
				n++
			}
		}
		for id := range model.Voters {
			if !got.Voters[id] {
				n++
			}
		}
		if n > 1 {
			return trk, model, false, "simple_changes_one_voter", fmt.Sprintf("simple change %s on %s altered %d voters", descCC(cc), model, n)
		}
	}
	// round trip through ConfState (and the wire)
	next := trk
	next.Config, next.Progress = cfg, prs
	cs := next.ConfState()
	b, merr := proto.Marshal(cs)
	if merr != nil {
		return trk, model, false, "roundtrip", merr.Error()
	}
	cs2 := &pb.ConfState{}
	if uerr := proto.Unmarshal(b, cs2); uerr != nil {
		return trk, model, false, "roundtrip", uerr.Error()
	}
	rcfg, rprs, rerr := confchange.Restore(confchange.Changer{Tracker: tracker.MakeProgressTracker(4, 0), LastIndex: 10}, cs2)
	if rerr != nil {
		return trk, model, false, "roundtrip", fmt.Sprintf("Restore(ConfState(%s)) failed: %v", got, rerr)
	}
	rt := tracker.MakeProgressTracker(4, 0)
	rt.Config, rt.Progress = rcfg, rprs
	if eq := cs.Equivalent(rt.ConfState()); eq != nil {
		return trk, model, false, "roundtrip", fmt.Sprintf("Restore(ConfState(%s)) yields a non-equivalent config: %v", got, eq)
	}
	if !confOfTracker(rcfg).Equal(got) {
		return trk, model, false, "roundtrip", fmt.Sprintf("Restore(ConfState(%s)) yields %s", got, confOfTracker(rcfg))
	}
	if len(rprs) != len(prs) {
		return trk, model, false, "roundtrip", fmt.Sprintf("Restore(ConfState(%s)) yields %d progress records, want %d", got, len(rprs), len(prs))
	}
	for id, p := range prs {
		if rp := rprs[id]; rp == nil || rp.IsLearner != p.IsLearner {
			return trk, model, false, "roundtrip", fmt.Sprintf("Restore(ConfState(%s)): progress of %d differs", got, id)
		}
	}
	return next, want, true, "", ""
}

func descCC(cc *pb.ConfChangeV2) string {
	return fmt.Sprintf("{%v %s}", cc.GetTransition(), pb.ConfChangesToString(cc.GetChanges()))
}

var ccTypes = []pb.ConfChangeType{pb.ConfChangeAddNode, pb.ConfChangeRemoveNode, pb.ConfChangeAddLearnerNode, pb.ConfChangeUpdateNode}
var ccTrans = []pb.ConfChangeTransition{pb.ConfChangeTransitionAuto, pb.ConfChangeTransitionJointImplicit, pb.ConfChangeTransitionJointExplicit}

func drawInitial(rt *rapid.T, maxID int) refmodel.Conf {
	c := refmodel.NewConf()
	for id := 1; id <= maxID; id++ {
		switch rapid.IntRange(0, 3).Draw(rt, fmt.Sprintf("role%d", id)) {
		case 1, 2:
			c.Voters[uint64(id)] = true
		case 3:
			c.Learners[uint64(id)] = true
		}
	}
	if len(c.Voters) == 0 {
		c.Voters[1] = true
		delete(c.Learners, 1)
	}
	return c
}

// TestC13 generates programs of conf changes (stateful, model-based).
func TestC13(t *testing.T) {
	rep := report.New("C13", "programs: a drawn valid non-joint config over ids {1..5} followed by 1..30 ConfChangeV2 operations (0..4 singles of any type over ids {0..6}, any transition), three quarters dispatched exactly like raft.applyConfChange and one quarter as direct Changer.Simple/EnterJoint/LeaveJoint calls with the same singles; oracle = independent set-based reference model (accept/reject + result), invariants, input purity, ConfState round trip through the wire; non-trivial = the program entered and left a joint config, or demoted an outgoing voter, or had a rejected op followed by an accepted one; distinct = digest of the program")
	defer rep.Write()
	rapid.Check(t, c13Prop(rep))
}

func c13Prop(rep *report.R) func(*rapid.T) {
	failed := false
	return func(rt *rapid.T) {
		model := drawInitial(rt, 5)
		emptyStart := rapid.IntRange(0, 9).Draw(rt, "emptystart") == 0
		if emptyStart {
			// the empty configuration of a fresh tracker (bootstrap) is a valid
			// input too: voters may be added to it one simple change at a time
			model = refmodel.NewConf()
		}
		trk, err := trackerFor(model)
		if emptyStart {
			trk, err = tracker.MakeProgressTracker(4, 0), nil
		}
		if err != nil {
			failed = true
			v13(rt, "roundtrip", "Restore of initial config %s failed: %v", model, err)
		}
		if !confOfTracker(trk.Config).Equal(model) {
			failed = true
			v13(rt, "roundtrip", "Restore(%s) yields %s", model, confOfTracker(trk.Config))
		}
		n := rapid.IntRange(1, 30).Draw(rt, "ops")
		var prog []string
		entered, left, demotedOutgoing, rejThenAcc, lastRejected, multiSimple := false, false, false, false, false, false
		for i := 0; i < n; i++ {
			cc := &pb.ConfChangeV2{Transition: ccTrans[rapid.IntRange(0, 2).Draw(rt, "tr")].Enum()}
			k := rapid.IntRange(0, 4).Draw(rt, "singles")
			if model.Joint() && rapid.IntRange(0, 2).Draw(rt, "leave") > 0 {
				k = 0
				cc.Transition = pb.ConfChangeTransitionAuto.Enum()
			}
			for j := 0; j < k; j++ {
				cc.Changes = append(cc.Changes, &pb.ConfChangeSingle{
					Type:   ccTypes[rapid.IntRange(0, 3).Draw(rt, "type")].Enum(),
					NodeId: new(uint64(rapid.IntRange(0, 6).Draw(rt, "id"))),
				})
			}
			op := dispatchOp(cc)
			// a quarter of the operations call the Changer directly with an
			// operation kind drawn independently of the number of singles
			if dk, dal := rapid.IntRange(0, 11).Draw(rt, "direct"), rapid.Bool().Draw(rt, "directautoleave"); dk < 3 {
				op = directOp{Kind: []refmodel.Kind{refmodel.KindSimple, refmodel.KindEnterJoint, refmodel.KindLeaveJoint}[dk], AutoLeave: dal, cc: cc, Direct: true}
			}
			prog = append(prog, op.String())
			wasJoint := model.Joint()
			for _, s := range cc.GetChanges() {
				if s.GetType() == pb.ConfChangeAddLearnerNode && model.Outgoing[s.GetNodeId()] {
					demotedOutgoing = true
				}
			}
			var ok bool
			var sig, msg string
			trk, model, ok, sig, msg = checkOp(trk, model, op)
			if ok && op.Direct && op.Kind == refmodel.KindSimple && len(cc.GetChanges()) > 1 {
				multiSimple = true
			}
			if sig != "" {
				failed = true
				v13(rt, sig, "%s (program: %s)", msg, strings.Join(prog, " ; "))
			}
			if ok {
				if lastRejected {
					rejThenAcc = true
				}
				if !wasJoint && model.Joint() {
					entered = true
				}
				if wasJoint && !model.Joint() {
					left = true
				}
			}
			lastRejected = !ok
		}
		if !failed {
			var cls []string
			if entered {
				cls = append(cls, "entered_joint")
			}
			if left {
				cls = append(cls, "left_joint")
			}
			if demotedOutgoing {
				cls = append(cls, "demoted_outgoing_voter")
			}
			if rejThenAcc {
				cls = append(cls, "rejected_then_accepted")
			}
			if multiSimple {
				cls = append(cls, "direct_simple_with_several_singles_accepted")
			}
			rep.Case((entered && left) || demotedOutgoing || rejThenAcc, report.Digest(strings.Join(prog, ";")), cls, func() string { return strings.Join(prog, " ; ") })
		}
	}
}

// TestC13Closure enumerates the reachable configuration space over a small
// id universe: BFS from every non-joint config, applying every ConfChangeV2
// with <= 2 singles (every type, every id incl. 0, every transition).
func TestC13Closure(t *testing.T) {
	maxID := 3
	if os.Getenv("VERIF_TIER") == "thorough" {
		maxID = 4
	}
	rep := report.New("C13", fmt.Sprintf("closure part: BFS over all configurations reachable over ids {1..%d} from every non-joint start config, applying every ConfChangeV2 with 0..2 singles (4 types x ids {0..%d}) x 3 transitions (dispatched like raft.applyConfChange) plus direct Changer calls the dispatch never makes (Simple with 2 and 3 singles, EnterJoint with 0..1 singles and either autoLeave) until no new configuration appears; every (state, change) pair is distinct by construction; non-trivial = the change was accepted or the state was joint", maxID, maxID))
	defer rep.Write()
	// all singles
	var singles []*pb.ConfChangeSingle
	for _, ty := range ccTypes {
		for id := 0; id <= maxID; id++ {
			singles = append(singles, &pb.ConfChangeSingle{Type: ty.Enum(), NodeId: new(uint64(id))})
		}
	}
	var changes []*pb.ConfChangeV2
	for _, tr := range ccTrans {
		changes = append(changes, &pb.ConfChangeV2{Transition: tr.Enum()})
		for _, a := range singles {
			changes = append(changes, &pb.ConfChangeV2{Transition: tr.Enum(), Changes: []*pb.ConfChangeSingle{a}})
			for _, b := range singles {
				changes = append(changes, &pb.ConfChangeV2{Transition: tr.Enum(), Changes: []*pb.ConfChangeSingle{a, b}})
			}
		}
	}
	// direct calls the dispatch never makes: Simple with 2 or 3 singles,
	// EnterJoint(autoLeave) with 0 or 1 singles and both autoLeave values
	var directOps []directOp
	for _, a := range singles {
		for _, b := range singles {
			directOps = append(directOps, directOp{Kind: refmodel.KindSimple, Direct: true, cc: &pb.ConfChangeV2{Changes: []*pb.ConfChangeSingle{a, b}}})
			for _, c := range singles {
				if c.GetType() == pb.ConfChangeUpdateNode || c.GetNodeId() == 0 {
					continue
				}
				directOps = append(directOps, directOp{Kind: refmodel.KindSimple, Direct: true, cc: &pb.ConfChangeV2{Changes: []*pb.ConfChangeSingle{a, b, c}}})
			}
		}
	}
	for _, al := range []bool{false, true} {
		directOps = append(directOps, directOp{Kind: refmodel.KindEnterJoint, AutoLeave: al, Direct: true, cc: &pb.ConfChangeV2{}})
		for _, a := range singles {
			directOps = append(directOps, directOp{Kind: refmodel.KindEnterJoint, AutoLeave: al, Direct: true, cc: &pb.ConfChangeV2{Changes: []*pb.ConfChangeSingle{a}}})
		}
	}
	// start states: every assignment id -> {none, voter, learner} with >= 1 voter
	seen := map[string]bool{}
	var queue []refmodel.Conf
	var rec func(id int, c refmodel.Conf)
	rec = func(id int, c refmodel.Conf) {
		if id > maxID {
			if len(c.Voters) > 0 && !seen[c.Key()] {
				seen[c.Key()] = true
				queue = append(queue, c.Clone())
			}
			return
		}
		rec(id+1, c)
		c.Voters[uint64(id)] = true
		rec(id+1, c)
		delete(c.Voters, uint64(id))
		c.Learners[uint64(id)] = true
		rec(id+1, c)
		delete(c.Learners, uint64(id))
	}
	rec(1, refmodel.NewConf())
	// plus the empty configuration of a fresh tracker
	if e := refmodel.NewConf(); !seen[e.Key()] {
		seen[e.Key()] = true
		queue = append(queue, e)
	}
	states, transitions, nontriv := 0, 0, 0
	for len(queue) > 0 {
		cur := queue[0]
		queue = queue[1:]
		states++
		trk, err := trackerFor(cur)
		if err != nil {
			v13(t, "roundtrip", "Restore(ConfState(%s)) failed: %v", cur, err)
		}
		if !confOfTracker(trk.Config).Equal(cur) {
			v13(t, "roundtrip", "Restore(ConfState(%s)) yields %s", cur, confOfTracker(trk.Config))
		}
		for _, op := range directOps {
			transitions++
			_, next, ok, sig, msg := checkOp(trk, cur, op)
			if sig != "" {
				v13(t, sig, "%s", msg)
			}
			if ok || cur.Joint() {
				nontriv++
			}
			if ok && !seen[next.Key()] {
				seen[next.Key()] = true
				queue = append(queue, next)
			}
		}
		for _, cc := range changes {
			transitions++
			_, next, ok, sig, msg := checkStep(trk, cur, cc)
			if sig != "" {
				v13(t, sig, "%s", msg)
			}
			if ok || cur.Joint() {
				nontriv++
			}
			if ok && !seen[next.Key()] {
				seen[next.Key()] = true
				queue = append(queue, next)
			}
		}
	}
	rep.Evaluations = transitions
	rep.NonTrivial = nontriv
	rep.DistinctCount = nontriv
	rep.Extra["exhaustive_part"] = true
	rep.Extra["states"] = states
	rep.Extra["transitions"] = transitions
	rep.Extra["exhaustive_domain"] = fmt.Sprintf("all configurations reachable over ids {1..%d} x all V2 changes with <=2 singles", maxID)
	rep.Samples = append(rep.Samples, fmt.Sprintf("%d reachable configurations, %d (state,change) pairs, e.g. voters=[1 2]&&[1 3] learners_next=[3] + {Auto } -> voters=[1 2] learners=[3]", states, transitions))
	t.Logf("closure: %d states, %d transitions", states, transitions)
}
