// Package replay holds the determinism check (C19): every generated case of
// the cluster simulator is executed twice in-process from the same recorded
// sequence of draws - and, for a sample, a third time in a child process - and
// every observable output of every node (each Ready field by field in emission
// order with deterministic marshalling, each Step error, the state summary
// after each call) must be identical. The simulator is a pure function of the
// draws exactly if raft is deterministic (election timeouts are harness
// inputs), so any dependence on map iteration order, pointer values or timing
// shows up as a difference between the runs.
package replay

import (
	"encoding/json"
	"fmt"
	"os"
	"os/exec"
	"strconv"
	"strings"
	"testing"

	"pgregory.net/rapid"

	"verif/harness/report"
	"verif/harness/sim"
)

func v19(t interface{ Fatalf(string, ...any) }, sig, format string, a ...any) {
	t.Fatalf("VIOLATION[C19/%s sig=%s step=0]: %s", sig, "c19."+sig, fmt.Sprintf(format, a...))
}

var profiles = []string{"det", "all", "conf", "elect"}

func maxSteps() int {
	if os.Getenv("VERIF_TIER") == "thorough" {
		return 500
	}
	return 200
}

func runOnce(d sim.Drawer, prof string) sim.CaseResult {
	return sim.RunCase(d, sim.CaseConfig{Profile: sim.Profiles[prof], MaxSteps: maxSteps(), RecordOut: true})
}

type childInput struct {
	Profile string `json:"profile"`
	Steps   int    `json:"steps"`
	Vals    []int  `json:"vals"`
}

// TestC19Child is the replay mode of the child process.
func TestC19Child(t *testing.T) {
	p := os.Getenv("VERIF_C19_INPUT")
	if p == "" {
		t.Skip("child mode only")
	}
	b, err := os.ReadFile(p)
	if err != nil {
		t.Fatal(err)
	}
	var in childInput
	if err := json.Unmarshal(b, &in); err != nil {
		t.Fatal(err)
	}
	rd := &sim.ReplayDrawer{Vals: in.Vals}
	res := sim.RunCase(rd, sim.CaseConfig{Profile: sim.Profiles[in.Profile], MaxSteps: in.Steps, RecordOut: true})
	n := 0
	var dg uint64
	if res.Sim != nil {
		n, dg = len(res.Sim.Out), sim.OutDigest(res.Sim.Out)
	}
	fmt.Printf("C19CHILD outputs=%d digest=%d diverged=%q\n", n, dg, rd.Diverged)
}

func TestC19(t *testing.T) {
	rep := report.New("C19", "each case of the cluster simulator (profiles det/all/conf/elect; profile det draws groups of 8-10 ids in 35% of the cases so that sets larger than 7 are iterated) is run twice in-process from one recorded draw sequence, and every 8th case a third time in a child process; oracle = the complete output traces (every Ready field by field in emission order with deterministic marshalling, every Step error, a state summary after every call) are identical; non-trivial = the case has a campaign with >=3 voters and a leader broadcast to >=3 peers, or a joint config, or a ReadIndex round; distinct = digest of the action sequence")
	defer rep.Write()
	caseNo := 0
	exe, _ := os.Executable()
	rapid.Check(t, func(rt *rapid.T) {
		caseNo++
		prof := profiles[rapid.IntRange(0, len(profiles)-1).Draw(rt, "profile")]
		rec := &sim.RecordingDrawer{D: sim.RapidDrawer{T: rt}}
		a := runOnce(rec, prof)
		if a.Sim == nil || a.Violation != nil {
			return
		}
		rd := &sim.ReplayDrawer{Vals: rec.Vals}
		b := runOnce(rd, prof)
		if b.Sim == nil {
			v19(rt, "replay_failed", "second run could not start")
		}
		if rd.Diverged != "" {
			v19(rt, "diverged", "the second run of the same inputs asked for different draws: %s; first difference in outputs: %s", rd.Diverged, sim.CompareOut(a.Sim.Out, b.Sim.Out))
		}
		if diff := sim.CompareOut(a.Sim.Out, b.Sim.Out); diff != "" {
			v19(rt, "outputs_differ", "two runs of the same inputs: %s", diff)
		}
		child := false
		if caseNo%8 == 0 && exe != "" {
			child = true
			f, err := os.CreateTemp("", "c19-*.json")
			if err == nil {
				jb, _ := json.Marshal(childInput{Profile: prof, Steps: maxSteps(), Vals: rec.Vals})
				f.Write(jb)
				f.Close()
				cmd := exec.Command(exe, "-test.run", "^TestC19Child$", "-test.v")
				cmd.Env = append(os.Environ(), "VERIF_C19_INPUT="+f.Name(), "VERIF_STATS_OUT=")
				out, cerr := cmd.CombinedOutput()
				os.Remove(f.Name())
				line := ""
				for _, l := range strings.Split(string(out), "\n") {
					if strings.HasPrefix(l, "C19CHILD ") {
						line = l
					}
				}
				if line == "" {
					rt.Fatalf("child process produced no result (err=%v): %s", cerr, out)
				}
				want := fmt.Sprintf("C19CHILD outputs=%d digest=%d diverged=%q", len(a.Sim.Out), sim.OutDigest(a.Sim.Out), "")
				if line != want {
					v19(rt, "child_outputs_differ", "a child process replaying the same inputs reports %q, this process %q", line, want)
				}
			}
		}
		c := a.Sim.Stats.C
		var cls []string
		if len(a.Sim.IDs) >= 8 {
			cls = append(cls, "det.big_group")
		}
		if c["campaign.joint"] > 0 || c["leader.elected_joint"] > 0 || c["commit.leader_advance_joint"] > 0 {
			cls = append(cls, "det.joint")
		}
		if c["read.answered"] > 0 {
			cls = append(cls, "det.read_round")
		}
		if c["leader.elected"] > 0 && len(a.Sim.IDs) >= 3 {
			cls = append(cls, "det.leader_broadcast")
		}
		if child {
			cls = append(cls, "det.child_process")
		}
		nontrivial := (c["leader.elected"] > 0 && len(a.Sim.IDs) >= 4) || c["campaign.joint"] > 0 || c["read.answered"] > 0
		rep.Case(nontrivial, report.Digest(strings.Join(a.Sim.Trace, ";")), cls, func() string {
			return fmt.Sprintf("%d outputs, digest %s; trace: %s", len(a.Sim.Out), strconv.FormatUint(sim.OutDigest(a.Sim.Out), 16), strings.Join(first(a.Sim.Trace, 25), " ; "))
		})
	})
}

func first(s []string, n int) []string {
	var out []string
	for _, l := range s {
		if len(l) > 5 && l[5] == ' ' {
			continue
		}
		out = append(out, l)
		if len(out) >= n {
			break
		}
	}
	return out
}
