// Command driver runs the check of one property: it rebuilds the test binary
// from /repo's current working tree (build tag verif), runs it sharded across
// cores with seeds derived from VERIF_SEED, merges the shard reports into
// /verif/evidence/<id>.json and prints the verdict lines.
//
// Exit status: 0 property held on everything explored (KNOWN-FINDING lines
// may be printed), 1 violation (a line "VIOLATION property=<id> replay=<path>"
// is printed), 2 infrastructure problem (build error, worker death, timeout).
package main

import (
	"bytes"
	"encoding/json"
	"fmt"
	"os"
	"os/exec"
	"path/filepath"
	"regexp"
	"sort"
	"strconv"
	"strings"
	"sync"
	"time"
)

const goBin = "go1.26.8"

// verifRoot is /verif unless VERIF_ROOT points at another checkout of it (a
// background run from a snapshot); everything else is relative to it.
var (
	verifRoot = "/verif"
	harness   = "/verif/harness"
)

func init() {
	if r := os.Getenv("VERIF_ROOT"); r != "" {
		verifRoot = r
		harness = filepath.Join(r, "harness")
	}
}

type tierCfg struct {
	Shards int
	Checks int
}

type propCfg struct {
	Pkg         string
	Test        string
	Level       string
	Quick       tierCfg
	Thorough    tierCfg
	Assumptions []string
	// ExtraRun are additional test-name regexps run once (un-sharded) before
	// the sharded run: scripted regressions, exhaustive enumerations.
	ExtraRun string
	// ExtraPkgs are further test packages whose tests are part of this
	// property's check (function-level models that complement a simulation
	// check, or the single-node log driver run under the property whose
	// clause it decides): built like the main binary, run once un-sharded.
	ExtraPkgs []extraPkg
	// Fuzz lists native fuzz targets run in the thorough tier (coverage-guided,
	// cannot be pinned by a seed; a crasher is the replay unit).
	Fuzz     []string
	FuzzTime string
}

type extraPkg struct {
	Pkg, Run string
	Quick    int // rapid.checks
	Thorough int
}

var simAssumptions = []string{
	"the application contract played by the harness is the one of DESIGN.md section 3 (sync Ready/Advance and async storage threads, atomic snapshot+hardstate write, messages released only after persistence)",
	"the network delivers only messages some node actually sent (late, duplicated, reordered, dropped)",
	"the build-tagged hooks (VerifState etc.) report raft's internal state faithfully",
}

func simProp(test string, q, t tierCfg) propCfg {
	return propCfg{Pkg: "./checks", Test: test, Level: "exploration", Quick: q, Thorough: t, Assumptions: simAssumptions}
}

var props = map[string]propCfg{}

func init() {
	q := tierCfg{Shards: 16, Checks: 2000}
	t := tierCfg{Shards: 16, Checks: 40000}
	for _, id := range []string{"C01", "C02", "C03", "C04", "C05", "C06", "C07", "C08", "C09", "C10", "C11", "C14", "C16", "C17", "C20"} {
		pc := simProp("Test"+id, q, t)
		pc.ExtraRun = "^TestReplay_" + id + "_" // scripted regressions (DESIGN Appendix B)
		if id == "C05" {
			pc.Level = "fault_enumeration" // random crash search + complete single-crash sweep per base schedule
		}
		switch id {
		case "C03", "C05", "C08":
			// the single async RawNode against scripted leaders and a
			// reference follower (harness/logm L3) decides clauses of these
			// properties too: log matching with the leader (C03), acks and
			// the apply stream only over durable state (C05, C08)
			pc.ExtraPkgs = []extraPkg{{Pkg: "./logm", Run: "^TestC18Follower$", Quick: 4000, Thorough: 150000}}
		case "C16":
			pc.ExtraPkgs = []extraPkg{{Pkg: "./pure", Run: "^TestC16Flow$", Quick: 15000, Thorough: 400000}}
		case "C14", "C20":
			// the goroutine wrapper raft.Node (node.go), which the simulator
			// bypasses by driving RawNode
			pc.ExtraPkgs = []extraPkg{{Pkg: "./nodeapi", Run: "^TestNodeAPI$", Quick: 100, Thorough: 3000}}
		}
		props[id] = pc
	}
	c15 := simProp("TestC15", tierCfg{Shards: 16, Checks: 1000}, tierCfg{Shards: 16, Checks: 25000})
	c15.Assumptions = append(append([]string{}, simAssumptions...),
		"bounded liveness only: convergence is required within 60 x ElectionTick round-robin tick rounds of a fault-free suffix; all nodes share one ElectionTick/HeartbeatTick; election timeouts are re-drawn at every campaign (as raft does)",
		"exempt (counted): a voter removed/demoted out of a two-voter set (README)")
	c15.ExtraRun = "^TestReplay_C15_"
	props["C15"] = c15
	pureAssume := []string{"the reference models in harness/refmodel are correct (they are written from the property text and are a few lines each)"}
	props["C12"] = propCfg{Pkg: "./pure", Test: "TestC12", ExtraRun: "^TestC12Exhaustive$", Level: "exploration", Fuzz: []string{"FuzzC12"}, FuzzTime: "45s",
		Quick: tierCfg{Shards: 4, Checks: 20000}, Thorough: tierCfg{Shards: 16, Checks: 1000000}, Assumptions: pureAssume}
	props["C18"] = propCfg{Pkg: "./logm", Test: "TestC18", ExtraRun: "^TestC18MemExhaustive$", Level: "exploration",
		Fuzz: []string{"FuzzC18Mem", "FuzzC18View", "FuzzC18Follower"}, FuzzTime: "60s",
		Quick: tierCfg{Shards: 8, Checks: 4000}, Thorough: tierCfg{Shards: 16, Checks: 300000},
		Assumptions: []string{"the abstract log and the reference follower in harness/logm are correct (textbook append/compact/install-snapshot semantics)",
			"the scripted cluster of driver L3 only emits messages a correct leader could have sent (leader completeness is enforced by the script)",
			"VerifLog is a pure pass-through to raftLog"}}
	props["C19"] = propCfg{Pkg: "./replay", Test: "TestC19", Level: "exploration",
		Quick: tierCfg{Shards: 16, Checks: 300}, Thorough: tierCfg{Shards: 16, Checks: 20000},
		Assumptions: []string{"the simulator itself is deterministic given its draws (no wall clock, no goroutines, sorted iteration everywhere in the harness); a harness nondeterminism would show up as a false alarm, never mask one",
			"probabilistic detector: Go randomizes map iteration per range statement, so a map-order dependence flips with probability >= 1/2 per affected call; a dependence on something that does not vary between the runs (e.g. GOARCH) is invisible"}}
	props["C13"] = propCfg{Pkg: "./pure", Test: "TestC13", ExtraRun: "^TestC13Closure$", Level: "exploration", Fuzz: []string{"FuzzC13"}, FuzzTime: "60s",
		Quick: tierCfg{Shards: 8, Checks: 2500}, Thorough: tierCfg{Shards: 16, Checks: 100000}, Assumptions: pureAssume}
}

type shardReport struct {
	Prop        string         `json:"prop"`
	Rule        string         `json:"rule"`
	Evaluations int            `json:"evaluations"`
	NonTrivial  int            `json:"nontrivial"`
	Digests     []uint64       `json:"digests"`
	Classes     map[string]int `json:"classes"`
	CasesWith   map[string]int `json:"cases_with"`
	Samples     []string       `json:"samples"`
	Excluded    int            `json:"excluded_known_finding"`
	Aborted     int            `json:"aborted_by_panic"`
	Extra       map[string]any `json:"extra,omitempty"`
}

type finding struct {
	Status      string `json:"status"` // open | fixed
	Property    string `json:"property"`
	Signature   string `json:"signature"`
	Description string `json:"description"`
	Replay      string `json:"replay,omitempty"`
	Commit      string `json:"commit,omitempty"`
	Line        string `json:"line,omitempty"`
}

type findingsFile struct {
	Findings []finding `json:"findings"`
}

func loadFindings() findingsFile {
	var ff findingsFile
	b, err := os.ReadFile(filepath.Join(verifRoot, "known_findings.json"))
	if err != nil {
		return ff
	}
	if err := json.Unmarshal(b, &ff); err != nil {
		fmt.Fprintf(os.Stderr, "driver: known_findings.json unreadable: %v\n", err)
		os.Exit(2)
	}
	return ff
}

func goEnv() []string {
	env := os.Environ()
	env = append(env, "GOFLAGS=-mod=mod", "GOPROXY=off", "GOSUMDB=off", "GOTOOLCHAIN=local", "CGO_ENABLED=0")
	return env
}

func infra(format string, a ...any) {
	fmt.Printf("INFRA-ERROR: "+format+"\n", a...)
	os.Exit(2)
}

var (
	reViolation = regexp.MustCompile(`VIOLATION\[(C\d+)/(\S+) sig=(\S+) step=(\d+)\]: (.*)`)
	rePassed    = regexp.MustCompile(`\[rapid\] OK, passed (\d+) tests`)
	reFailedAt  = regexp.MustCompile(`\[rapid\] failed after (\d+) tests`)
)

type shardResult struct {
	idx      int
	exit     int
	out      string
	passed   int
	viol     []string // [prop, monitor, sig, step, msg]
	failFile string
	report   *shardReport
	dur      time.Duration
}

func main() {
	if len(os.Args) < 2 {
		fmt.Println("usage: driver <property> [--tier quick|thorough] [--replay path]")
		os.Exit(2)
	}
	prop := os.Args[1]
	tier := os.Getenv("VERIF_TIER")
	replay := ""
	for i := 2; i < len(os.Args); i++ {
		switch os.Args[i] {
		case "--tier":
			i++
			tier = os.Args[i]
		case "--replay":
			i++
			replay = os.Args[i]
		}
	}
	if tier != "thorough" {
		tier = "quick"
	}
	cfg, ok := props[prop]
	if !ok {
		infra("unknown property %q", prop)
	}
	seed := 1
	if v, err := strconv.Atoi(os.Getenv("VERIF_SEED")); err == nil {
		seed = v
	}
	start := time.Now()
	// VERIF_REPO (development only): build against another copy of the
	// repository (a scratch worktree with a seeded change) instead of /repo;
	// output and evidence then go to out/<prop>@<tag> and never touch
	// /verif/evidence.
	altRepo := os.Getenv("VERIF_REPO")
	outName := prop
	if altRepo != "" {
		outName = prop + "@" + filepath.Base(altRepo)
	}
	outDir := filepath.Join(verifRoot, "out", outName)
	if replay == "" {
		_ = os.RemoveAll(outDir)
	}
	if err := os.MkdirAll(outDir, 0o755); err != nil {
		infra("mkdir %s: %v", outDir, err)
	}

	// 1. build the test binary from the current /repo tree
	bin := filepath.Join(outDir, "check.test")
	buildArgs := []string{"test", "-c", "-tags", "verif", "-o", bin}
	var modArgs []string
	if altRepo != "" {
		gm, err := os.ReadFile(filepath.Join(harness, "go.mod"))
		if err != nil {
			infra("read go.mod: %v", err)
		}
		alt := strings.Replace(string(gm), "=> /repo", "=> "+altRepo, 1)
		modfile := filepath.Join(outDir, "alt.mod")
		_ = os.WriteFile(modfile, []byte(alt), 0o644)
		if gs, err := os.ReadFile(filepath.Join(harness, "go.sum")); err == nil {
			_ = os.WriteFile(filepath.Join(outDir, "alt.sum"), gs, 0o644)
		}
		buildArgs = append(buildArgs, "-modfile="+modfile)
		modArgs = []string{"-modfile=" + modfile}
	}
	buildArgs = append(buildArgs, cfg.Pkg)
	build := exec.Command(goBin, buildArgs...)
	build.Dir = harness
	build.Env = goEnv()
	if out, err := build.CombinedOutput(); err != nil {
		infra("building %s failed: %v\n%s", cfg.Pkg, err, out)
	}

	if replay != "" {
		abs, _ := filepath.Abs(replay)
		runRe := "^" + cfg.Test + "$"
		if m := regexp.MustCompile(`/extra(\d+)/`).FindStringSubmatch(abs); m != nil {
			// a failure of one of the property's extra packages
			if k, _ := strconv.Atoi(m[1]); k < len(cfg.ExtraPkgs) {
				ep := cfg.ExtraPkgs[k]
				bin = filepath.Join(outDir, fmt.Sprintf("extra%d.replay.test", k))
				args := append([]string{"test", "-c", "-tags", "verif", "-o", bin}, modArgs...)
				b := exec.Command(goBin, append(args, ep.Pkg)...)
				b.Dir = harness
				b.Env = goEnv()
				if out, err := b.CombinedOutput(); err != nil {
					infra("building %s failed: %v\n%s", ep.Pkg, err, out)
				}
				runRe = ep.Run
			}
		}
		cmd := exec.Command(bin, "-test.run", runRe, "-test.v", "-rapid.failfile="+abs, "-rapid.nofailfile")
		cmd.Dir = outDir
		cmd.Env = append(goEnv(), "VERIF_TIER="+tier, "VERIF_OUT_DIR="+outDir, "VERIF_SHARD=replay", "VERIF_REPORT_AS="+prop)
		out, _ := cmd.CombinedOutput()
		fmt.Print(filterDraws(string(out)))
		if m := reViolation.FindStringSubmatch(string(out)); m != nil {
			if b, err := os.ReadFile(filepath.Join(outDir, prop+"-shardreplay.trace")); err == nil {
				fmt.Print(string(b))
			}
			fmt.Printf("VIOLATION property=%s replay=%s\n", prop, abs)
			os.Exit(1)
		}
		os.Exit(0)
	}

	ff := loadFindings()
	var excl []string
	open := map[string]finding{}
	seenSig := map[string]bool{}
	for _, f := range ff.Findings {
		if f.Status != "open" {
			continue
		}
		// every open finding is excluded by construction in every check (one
		// root cause can surface through several properties); the
		// KNOWN-FINDING lines are printed for the entries of this property
		if !seenSig[f.Signature] {
			seenSig[f.Signature] = true
			excl = append(excl, f.Signature)
		}
		if f.Property == prop {
			open[f.Signature] = f
		}
	}

	tc := cfg.Quick
	if tier == "thorough" {
		tc = cfg.Thorough
	}
	if v, err := strconv.Atoi(os.Getenv("VERIF_SHARDS")); err == nil && v > 0 {
		tc.Shards = v
	}
	if v, err := strconv.Atoi(os.Getenv("VERIF_CHECKS")); err == nil && v > 0 {
		tc.Checks = v
	}
	timeout := "20m"
	if tier == "thorough" {
		timeout = "240m"
	}

	var extraOut string
	var extraReports []*shardReport
	violations := 0
	var violLines []string
	knownSeen := map[string]bool{}

	// 2. un-sharded extra tests (scripted regressions, exhaustive parts)
	if cfg.ExtraRun != "" {
		sp := filepath.Join(outDir, "extra.json")
		cmd := exec.Command(bin, "-test.run", cfg.ExtraRun, "-test.count=1", "-test.timeout="+timeout, "-test.v")
		cmd.Dir = outDir
		cmd.Env = append(goEnv(), "VERIF_TIER="+tier, "VERIF_OUT_DIR="+outDir, "VERIF_SHARD=extra", "VERIF_STATS_OUT="+sp,
			"VERIF_EXCLUDE="+strings.Join(excl, ","), "VERIF_SEED="+strconv.Itoa(seed))
		out, err := cmd.CombinedOutput()
		extraOut = string(out)
		if b, rerr := os.ReadFile(sp); rerr == nil {
			var r shardReport
			if json.Unmarshal(b, &r) == nil {
				extraReports = append(extraReports, &r)
			}
		}
		if err != nil {
			if m := reViolation.FindStringSubmatch(extraOut); m != nil {
				if _, isOpen := open[m[3]]; isOpen && m[1] == prop {
					knownSeen[m[3]] = true
				} else {
					violations++
					rp := filepath.Join(outDir, "extra.log")
					_ = os.WriteFile(rp, out, 0o644)
					violLines = append(violLines, fmt.Sprintf("VIOLATION property=%s replay=%s", prop, rp))
					fmt.Println(m[0])
				}
			} else {
				fmt.Print(tail(extraOut, 60))
				infra("extra tests %s failed without a violation line", cfg.ExtraRun)
			}
		}
	}

	// 2b. tests of further packages that belong to this property's check
	for k, ep := range cfg.ExtraPkgs {
		if replay != "" {
			break
		}
		ebin := filepath.Join(outDir, fmt.Sprintf("extra%d.test", k))
		args := append([]string{"test", "-c", "-tags", "verif", "-o", ebin}, modArgs...)
		args = append(args, ep.Pkg)
		b := exec.Command(goBin, args...)
		b.Dir = harness
		b.Env = goEnv()
		if out, err := b.CombinedOutput(); err != nil {
			infra("building %s failed: %v\n%s", ep.Pkg, err, out)
		}
		checks := ep.Quick
		if tier == "thorough" {
			checks = ep.Thorough
		}
		ed := filepath.Join(outDir, fmt.Sprintf("extra%d", k))
		_ = os.MkdirAll(ed, 0o755)
		sp := filepath.Join(ed, "stats.json")
		cmd := exec.Command(ebin, "-test.run", ep.Run, "-test.count=1", "-test.timeout="+timeout, "-test.v",
			"-rapid.checks="+strconv.Itoa(checks), "-rapid.seed="+strconv.Itoa(1+seed*1000+900+k), "-rapid.shrinktime=20s")
		cmd.Dir = ed
		cmd.Env = append(goEnv(), "VERIF_TIER="+tier, "VERIF_OUT_DIR="+outDir, "VERIF_SHARD=extra"+strconv.Itoa(k), "VERIF_STATS_OUT="+sp,
			"VERIF_REPORT_AS="+prop, "VERIF_SEED="+strconv.Itoa(seed))
		out, err := cmd.CombinedOutput()
		_ = os.WriteFile(filepath.Join(ed, "output.log"), []byte(filterDraws(string(out))), 0o644)
		if b, rerr := os.ReadFile(sp); rerr == nil {
			var r shardReport
			if json.Unmarshal(b, &r) == nil {
				extraReports = append(extraReports, &r)
			}
		}
		if err != nil {
			if m := reViolation.FindStringSubmatch(string(out)); m != nil {
				violations++
				rp := filepath.Join(ed, "output.log")
				if fs, _ := filepath.Glob(filepath.Join(ed, "testdata", "rapid", "*", "*.fail")); len(fs) > 0 {
					rp = fs[0]
				}
				violLines = append(violLines, fmt.Sprintf("VIOLATION property=%s replay=%s", prop, rp))
				fmt.Printf("%s %s: %s\n", ep.Pkg, ep.Run, m[0])
			} else if so := string(out); strings.Contains(so, "\npanic: ") && strings.Contains(so, "go.etcd.io/raft/v3.") &&
				(strings.Contains(so, "go.etcd.io/raft/v3.(*node).run") || !strings.Contains(so, "test timed out")) {
				// a Go runtime panic inside the library (e.g. in the node.run
				// goroutine, which no test code can recover) took the test
				// process down: for the library that is a crash of the node
				violations++
				rp := filepath.Join(ed, "output.log")
				violLines = append(violLines, fmt.Sprintf("VIOLATION property=%s replay=%s", prop, rp))
				pl := so[strings.Index(so, "\npanic: ")+1:]
				if i := strings.Index(pl, "\n"); i > 0 {
					pl = pl[:i]
				}
				fmt.Printf("%s %s: the test process died of a panic inside go.etcd.io/raft/v3: %s\n", ep.Pkg, ep.Run, pl)
			} else {
				fmt.Print(tail(filterDraws(string(out)), 40))
				infra("tests %s of %s failed without a violation line", ep.Run, ep.Pkg)
			}
		}
	}

	// 3. sharded generated search
	results := make([]*shardResult, tc.Shards)
	var wg sync.WaitGroup
	for i := 0; i < tc.Shards; i++ {
		wg.Add(1)
		go func(i int) {
			defer wg.Done()
			sd := filepath.Join(outDir, fmt.Sprintf("shard%d", i))
			_ = os.MkdirAll(sd, 0o755)
			sp := filepath.Join(sd, "stats.json")
			rseed := 1 + seed*1000 + i
			cmd := exec.Command(bin, "-test.run", "^"+cfg.Test+"$", "-test.count=1", "-test.timeout="+timeout,
				"-rapid.checks="+strconv.Itoa(tc.Checks), "-rapid.seed="+strconv.Itoa(rseed), "-rapid.shrinktime=20s", "-test.v")
			cmd.Dir = sd
			cmd.Env = append(goEnv(), "VERIF_TIER="+tier, "VERIF_OUT_DIR="+outDir, "VERIF_SHARD="+strconv.Itoa(i),
				"VERIF_STATS_OUT="+sp, "VERIF_EXCLUDE="+strings.Join(excl, ","), "VERIF_SEED="+strconv.Itoa(seed))
			t0 := time.Now()
			var buf bytes.Buffer
			cmd.Stdout, cmd.Stderr = &buf, &buf
			err := cmd.Run()
			r := &shardResult{idx: i, out: buf.String(), dur: time.Since(t0)}
			_ = os.WriteFile(filepath.Join(sd, "output.log"), []byte(filterDraws(r.out)), 0o644)
			if err != nil {
				if ee, ok := err.(*exec.ExitError); ok {
					r.exit = ee.ExitCode()
				} else {
					r.exit = -1
				}
			}
			if m := rePassed.FindStringSubmatch(r.out); m != nil {
				r.passed, _ = strconv.Atoi(m[1])
			} else if m := reFailedAt.FindStringSubmatch(r.out); m != nil {
				r.passed, _ = strconv.Atoi(m[1])
			}
			if m := reViolation.FindStringSubmatch(r.out); m != nil {
				r.viol = m[1:]
			}
			if fs, _ := filepath.Glob(filepath.Join(sd, "testdata", "rapid", "*", "*.fail")); len(fs) > 0 {
				dst := filepath.Join(outDir, fmt.Sprintf("%s-shard%d.fail", prop, i))
				if b, err := os.ReadFile(fs[0]); err == nil {
					_ = os.WriteFile(dst, b, 0o644)
					r.failFile = dst
				}
			}
			if b, err := os.ReadFile(sp); err == nil {
				var rep shardReport
				if json.Unmarshal(b, &rep) == nil {
					r.report = &rep
				}
			}
			results[i] = r
		}(i)
	}
	wg.Wait()

	// 3b. native fuzzing (thorough tier only)
	fuzzInfo := map[string]any{}
	if tier == "thorough" && os.Getenv("VERIF_NO_FUZZ") == "" {
		reExecs := regexp.MustCompile(`execs: (\d+)`)
		reFail := regexp.MustCompile(`Failing input written to (\S+)`)
		for _, target := range cfg.Fuzz {
			fd := filepath.Join(outDir, "fuzz-"+target)
			_ = os.MkdirAll(fd, 0o755)
			ft := cfg.FuzzTime
			if ft == "" {
				ft = "60s"
			}
			cmd := exec.Command(bin, "-test.run=^$", "-test.fuzz=^"+target+"$", "-test.fuzztime="+ft,
				"-test.fuzzcachedir="+filepath.Join(fd, "cache"), "-test.timeout=30m")
			cmd.Dir = fd
			cmd.Env = append(goEnv(), "VERIF_TIER="+tier, "VERIF_STATS_OUT=")
			out, err := cmd.CombinedOutput()
			_ = os.WriteFile(filepath.Join(fd, "output.log"), out, 0o644)
			execs := 0
			for _, mm := range reExecs.FindAllStringSubmatch(string(out), -1) {
				if v, e := strconv.Atoi(mm[1]); e == nil && v > execs {
					execs = v
				}
			}
			fuzzInfo[target] = map[string]any{"execs": execs, "fuzztime": ft}
			if err != nil {
				if mm := reFail.FindStringSubmatch(string(out)); mm != nil {
					violations++
					rp := filepath.Join(fd, mm[1])
					if vm := reViolation.FindStringSubmatch(string(out)); vm != nil {
						fmt.Printf("fuzz %s: %s\n", target, vm[0])
					} else {
						fmt.Printf("fuzz %s: failing input %s\n%s", target, rp, tail(string(out), 30))
					}
					violLines = append(violLines, fmt.Sprintf("VIOLATION property=%s replay=%s", prop, rp))
				} else {
					fmt.Printf("fuzz %s: exit without a failing input (inconclusive):\n%s", target, tail(string(out), 15))
				}
			}
		}
	}

	// 4. verdicts
	infraProblems := 0
	for _, r := range results {
		switch {
		case r.exit == 0:
		case r.viol != nil:
			sig := r.viol[2]
			if _, isOpen := open[sig]; isOpen && r.viol[0] == prop {
				knownSeen[sig] = true
				continue
			}
			violations++
			rp := r.failFile
			if rp == "" {
				rp = filepath.Join(outDir, fmt.Sprintf("shard%d", r.idx), "output.log")
				_ = os.WriteFile(rp, []byte(r.out), 0o644)
			}
			fmt.Printf("shard %d: VIOLATION[%s/%s sig=%s step=%s]: %s\n", r.idx, r.viol[0], r.viol[1], r.viol[2], r.viol[3], r.viol[4])
			fmt.Printf("  trace: %s\n", filepath.Join(outDir, fmt.Sprintf("%s-shard%d.trace", prop, r.idx)))
			violLines = append(violLines, fmt.Sprintf("VIOLATION property=%s replay=%s", prop, rp))
		default:
			infraProblems++
			fmt.Printf("shard %d: exit %d without a violation line; output tail:\n%s\n", r.idx, r.exit, tail(filterDraws(r.out), 40))
		}
	}

	// 5. evidence
	ev := mergeEvidence(prop, tier, seed, cfg, tc, results, extraReports, violations, time.Since(start))
	if len(fuzzInfo) > 0 {
		ev["coverage"].(map[string]any)["native_fuzz"] = fuzzInfo
	}
	evPath := filepath.Join(verifRoot, "evidence", prop+".json")
	if altRepo != "" {
		evPath = filepath.Join(outDir, "evidence.json")
	}
	_ = os.MkdirAll(filepath.Dir(evPath), 0o755)
	b, _ := json.MarshalIndent(ev, "", " ")
	if err := os.WriteFile(evPath, b, 0o644); err != nil {
		infra("writing evidence: %v", err)
	}

	cov := ev["coverage"].(map[string]any)
	fmt.Printf("%s %s seed=%d: evaluations=%v distinct_nontrivial=%v shards=%d wall=%.1fs violations=%d\n",
		prop, tier, seed, cov["evaluations"], cov["distinct_nontrivial"], tc.Shards, time.Since(start).Seconds(), violations)

	for _, f := range ff.Findings {
		if f.Status == "open" && f.Property == prop {
			fmt.Printf("KNOWN-FINDING: property=%s %s: %s\n", prop, f.Signature, f.Description)
			if strings.Contains(extraOut, "did not reproduce") {
				fmt.Printf("NOTE: the scripted regression of known finding %s did not reproduce on this tree\n", f.Signature)
			}
		}
	}
	if violations > 0 {
		for _, l := range violLines {
			fmt.Println(l)
		}
		os.Exit(1)
	}
	if infraProblems > 0 {
		os.Exit(2)
	}
	_ = extraOut
	os.Exit(0)
}

func filterDraws(s string) string {
	var out []string
	for _, l := range strings.Split(s, "\n") {
		if strings.Contains(l, "[rapid] draw ") {
			continue
		}
		out = append(out, l)
	}
	return strings.Join(out, "\n")
}

func tail(s string, n int) string {
	ls := strings.Split(strings.TrimRight(s, "\n"), "\n")
	if len(ls) > n {
		ls = ls[len(ls)-n:]
	}
	return strings.Join(ls, "\n") + "\n"
}

func mergeEvidence(prop, tier string, seed int, cfg propCfg, tc tierCfg, results []*shardResult, extra []*shardReport, violations int, wall time.Duration) map[string]any {
	evals, nontrivial, excluded, aborted := 0, 0, 0, 0
	digests := map[uint64]bool{}
	distinctExtra := 0
	classes := map[string]int{}
	casesWith := map[string]int{}
	var samples []any
	rule := ""
	passed := []int{}
	extraInfo := map[string]any{}
	exhaustive := false
	add := func(rep *shardReport) {
		if rep == nil {
			return
		}
		evals += rep.Evaluations
		nontrivial += rep.NonTrivial
		excluded += rep.Excluded
		aborted += rep.Aborted
		for _, d := range rep.Digests {
			digests[d] = true
		}
		for k, v := range rep.Classes {
			classes[k] += v
		}
		for k, v := range rep.CasesWith {
			casesWith[k] += v
		}
		if rule == "" {
			rule = rep.Rule
		} else if rep.Rule != "" && !strings.Contains(rule, rep.Rule) {
			rule += " || " + rep.Rule
		}
		for _, s := range rep.Samples {
			if len(samples) < 5 {
				samples = append(samples, s)
			}
		}
		for k, v := range rep.Extra {
			if k == "distinct_count" {
				if f, ok := v.(float64); ok {
					distinctExtra += int(f)
				}
				continue
			}
			if f, ok := v.(float64); ok {
				if prev, ok2 := extraInfo[k].(float64); ok2 {
					f += prev
				}
				extraInfo[k] = f
			} else {
				extraInfo[k] = v
			}
			if k == "exhaustive" {
				if b, ok := v.(bool); ok && b {
					exhaustive = true
				}
			}
		}
	}
	for _, rep := range extra {
		add(rep)
	}
	for _, r := range results {
		if r == nil {
			continue
		}
		add(r.report)
		passed = append(passed, r.passed)
	}
	if len(samples) == 0 {
		samples = append(samples, "(no non-trivial case in this run)")
	}
	keys := make([]string, 0, len(casesWith))
	for k := range casesWith {
		keys = append(keys, k)
	}
	sort.Strings(keys)
	cw := map[string]int{}
	for _, k := range keys {
		cw[k] = casesWith[k]
	}
	cov := map[string]any{
		"evaluations":            evals,
		"distinct_nontrivial":    len(digests) + distinctExtra,
		"nontrivial_cases":       nontrivial,
		"rule":                   rule,
		"samples":                samples,
		"classes_event_totals":   classes,
		"classes_cases_with":     cw,
		"shards":                 tc.Shards,
		"requested_per_shard":    tc.Checks,
		"passed_per_shard":       passed,
		"excluded_known_finding": excluded,
		"aborted_by_panic":       aborted,
		"exhaustive":             exhaustive,
	}
	for k, v := range extraInfo {
		if _, dup := cov[k]; !dup {
			cov[k] = v
		}
	}
	return map[string]any{
		"property_id": prop,
		"tier":        tier,
		"seed":        seed,
		"level":       cfg.Level,
		"coverage":    cov,
		"assumptions": cfg.Assumptions,
		"wall_s":      float64(int(wall.Seconds()*10)) / 10,
		"violations":  violations,
	}
}
