// Package report writes the per-shard report that cmd/driver merges into the
// evidence file.
package report

import (
	"encoding/json"
	"hash/fnv"
	"os"
	"sort"
)

type R struct {
	Prop          string
	Rule          string
	Evaluations   int
	NonTrivial    int
	DistinctCount int             // distinct non-trivial cases counted without listing digests
	Digests       map[uint64]bool // digests of non-trivial cases (merged across shards)
	Classes       map[string]int
	CasesWith     map[string]int
	Samples       []string
	MaxSamples    int
	Extra         map[string]any
}

func New(prop, rule string) *R {
	return &R{Prop: prop, Rule: rule, Digests: map[uint64]bool{}, Classes: map[string]int{}, CasesWith: map[string]int{}, MaxSamples: 4, Extra: map[string]any{}}
}

func Digest(s string) uint64 {
	h := fnv.New64a()
	h.Write([]byte(s))
	return h.Sum64()
}

// Case records one evaluated case.
func (r *R) Case(nontrivial bool, digest uint64, classes []string, sample func() string) {
	r.Evaluations++
	for _, c := range classes {
		r.Classes[c]++
		r.CasesWith[c]++
	}
	if nontrivial {
		r.NonTrivial++
		r.Digests[digest] = true
		if len(r.Samples) < r.MaxSamples && sample != nil {
			r.Samples = append(r.Samples, sample())
		}
	}
}

type out struct {
	Prop        string         `json:"prop"`
	Rule        string         `json:"rule"`
	Evaluations int            `json:"evaluations"`
	NonTrivial  int            `json:"nontrivial"`
	Digests     []uint64       `json:"digests"`
	Classes     map[string]int `json:"classes"`
	CasesWith   map[string]int `json:"cases_with"`
	Samples     []string       `json:"samples"`
	Excluded    int            `json:"excluded_known_finding"`
	Aborted     int            `json:"aborted_by_panic"`
	Extra       map[string]any `json:"extra,omitempty"`
}

// Write writes the report to $VERIF_STATS_OUT (if set).
func (r *R) Write() {
	p := os.Getenv("VERIF_STATS_OUT")
	if p == "" {
		return
	}
	o := out{Prop: r.Prop, Rule: r.Rule, Evaluations: r.Evaluations, NonTrivial: r.NonTrivial, Classes: r.Classes, CasesWith: r.CasesWith, Samples: r.Samples, Extra: r.Extra}
	if r.DistinctCount > 0 {
		if o.Extra == nil {
			o.Extra = map[string]any{}
		}
		o.Extra["distinct_count"] = r.DistinctCount
	}
	for d := range r.Digests {
		o.Digests = append(o.Digests, d)
	}
	sort.Slice(o.Digests, func(i, j int) bool { return o.Digests[i] < o.Digests[j] })
	b, _ := json.Marshal(o)
	_ = os.WriteFile(p, b, 0o644)
}
