// Package checks holds one test per property; the driver (cmd/driver) runs
// them sharded across cores and merges their shard reports into evidence.
package checks

import (
	"fmt"
	"os"
	"strconv"
	"strings"
	"testing"

	"pgregory.net/rapid"

	"verif/harness/sim"
)

type spec struct {
	Prop     string
	Profiles []string
	On       []string // additional monitors kept on (not owned)
	Owned    []string
	Steps    [2]int // quick, thorough
	RuleText string
	Rule     sim.Rule
	Liveness bool
	// EnumEvery > 0: every EnumEvery-th case is followed by a complete
	// enumeration of single-crash faults over a fresh crash-free base schedule.
	EnumEvery int
}

func tier() string {
	if os.Getenv("VERIF_TIER") == "thorough" {
		return "thorough"
	}
	return "quick"
}

func envInt(k string, def int) int {
	if v, err := strconv.Atoi(os.Getenv(k)); err == nil {
		return v
	}
	return def
}

func excludes() map[string]bool {
	m := map[string]bool{}
	for _, s := range strings.Split(os.Getenv("VERIF_EXCLUDE"), ",") {
		if s != "" {
			m[s] = true
		}
	}
	return m
}

func simCheck(t *testing.T, sp spec) {
	steps := sp.Steps[0]
	if tier() == "thorough" {
		steps = sp.Steps[1]
	}
	steps = envInt("VERIF_STEPS", steps)
	col := sim.NewCollector(sp.Prop, sp.RuleText, sp.Rule)
	failed := false
	defer col.WriteIfRequested()
	excl := excludes()
	owned := sp.Owned
	if len(owned) == 0 {
		owned = []string{sp.Prop}
	}
	caseNo := 0
	rapid.Check(t, func(rt *rapid.T) {
		caseNo++
		if sp.EnumEvery > 0 && caseNo%sp.EnumEvery == 0 && !failed {
			if v := crashEnumeration(rt, sp, owned, col); v != nil {
				failed = true
				rt.Fatalf("%s", v.Error())
			}
			return
		}
		prof := sp.Profiles[0]
		if len(sp.Profiles) > 1 {
			prof = sp.Profiles[rapid.IntRange(0, len(sp.Profiles)-1).Draw(rt, "profile")]
		}
		res := sim.RunCase(sim.RapidDrawer{T: rt}, sim.CaseConfig{
			Profile: sim.Profiles[prof], MaxSteps: steps, On: sp.On, Owned: owned, Liveness: sp.Liveness, Exclude: excl,
		})
		if !failed && res.Sim != nil {
			col.Add(res.Sim, res.Aborted, res.Excluded)
		}
		if res.Violation != nil {
			failed = true
			if dir := os.Getenv("VERIF_OUT_DIR"); dir != "" {
				sim.WriteFailure(dir, fmt.Sprintf("%s-shard%s", sp.Prop, os.Getenv("VERIF_SHARD")), res)
			}
			rt.Fatalf("%s", res.Violation.Error())
		}
	})
}

func ge(c *sim.CaseStats, k string, n int) bool { return c.C[k] >= n }
func has(c *sim.CaseStats, ks ...string) bool {
	for _, k := range ks {
		if c.C[k] > 0 {
			return true
		}
	}
	return false
}

const caseText = "case = drawn world (1-5 nodes, per-node Config feature vector, bootstrap style) + up to S rapid-drawn actions from the profile's weight table (ticks, Ready sub-steps, storage-thread steps, deliver/dup/drop/partition, local API calls, crash/restart, compaction); distinct = 64-bit digest of the full action sequence, merged across shards; "

func TestC01(t *testing.T) {
	simCheck(t, spec{Prop: "C01", Profiles: []string{"base", "conf", "crash", "snap", "flow"}, Steps: [2]int{300, 900},
		RuleText: caseText + "non-trivial = >=2 distinct nodes were handed a common index AND the case had a second election, a restart, an applied conf change or a snapshot install",
		Rule: func(c *sim.CaseStats) bool {
			return has(c, "apply.shared_index") && (ge(c, "leader.elected", 2) || has(c, "restart", "conf.applied", "snap.installed"))
		}})
}

func TestC02(t *testing.T) {
	simCheck(t, spec{Prop: "C02", Profiles: []string{"elect", "conf", "crash"}, Steps: [2]int{300, 900},
		RuleText: caseText + "non-trivial = >=2 real campaigns, or a vote response delivered after its sender restarted, or a forced (transfer) vote granted, or an election won under a joint config",
		Rule: func(c *sim.CaseStats) bool {
			return ge(c, "campaign.real", 2) || has(c, "vote.resp_after_sender_restart", "vote.granted_forced", "leader.elected_joint")
		}})
}

func TestC03(t *testing.T) {
	simCheck(t, spec{Prop: "C03", Profiles: []string{"base", "crash", "conf"}, Steps: [2]int{300, 900},
		RuleText: caseText + "non-trivial = some node's divergent tail was overwritten, or messages were duplicated/dropped while entries were being committed",
		Rule: func(c *sim.CaseStats) bool {
			return has(c, "log.tail_overwritten") || (has(c, "net.dup", "net.drop") && has(c, "commit.leader_advance"))
		}})
}

func TestC04(t *testing.T) {
	simCheck(t, spec{Prop: "C04", Profiles: []string{"elect", "conf", "crash", "asnap"}, Steps: [2]int{300, 900},
		RuleText: caseText + "non-trivial = an election was won after entries had been committed by an earlier leader (leader.elected_with_history), or by a restarted node, or under a joint config",
		Rule: func(c *sim.CaseStats) bool {
			return has(c, "leader.elected_with_history", "leader.elected_after_restart", "leader.elected_joint")
		}})
}

func TestC05(t *testing.T) {
	simCheck(t, spec{Prop: "C05", Profiles: []string{"crash"}, Owned: []string{"C05", "C01", "C02", "C03", "C04"}, Steps: [2]int{300, 900}, EnumEvery: 150,
		RuleText: caseText + "every 150th case is replaced by a fault enumeration: a crash-free base schedule whose Ready sub-steps and storage-thread steps are all separate actions is replayed once per (action boundary, node, crash variant in {plain, partial append, lost un-synced hard state with lowest Applied, both}) with a restart shortly after, then everything restarted and drained - a complete single-crash sweep per base schedule; non-trivial = a crash hit a node holding un-persisted promises (queued after-append responses, a Ready between take and send, or a non-empty append queue)",
		Rule:     func(c *sim.CaseStats) bool { return has(c, "crash.with_pending_promises") }})
}

func TestC06(t *testing.T) {
	simCheck(t, spec{Prop: "C06", Profiles: []string{"base", "conf", "flow"}, Steps: [2]int{300, 900},
		RuleText: caseText + "non-trivial = a leader commit advance in a case with duplicated/dropped messages, or under a joint config, or in the same action as a config switch",
		Rule: func(c *sim.CaseStats) bool {
			return has(c, "commit.leader_advance") && has(c, "net.dup", "net.drop", "commit.leader_advance_joint", "commit.advance_at_config_switch")
		}})
}

func TestC07(t *testing.T) {
	simCheck(t, spec{Prop: "C07", Profiles: []string{"base", "crash", "elect", "snap", "asnap"}, Steps: [2]int{300, 900},
		RuleText: caseText + "non-trivial = >=2 exposed term changes and at least one restart",
		Rule:     func(c *sim.CaseStats) bool { return ge(c, "hs.term_change", 2) && has(c, "restart") }})
}

func TestC08(t *testing.T) {
	simCheck(t, spec{Prop: "C08", Profiles: []string{"crash", "snap", "flow", "asnap"}, Steps: [2]int{300, 900},
		RuleText: caseText + "non-trivial = a committed batch was emitted while an earlier one was un-acked, or a snapshot was installed between batches, or a node restarted with Applied below its previous applied index",
		Rule: func(c *sim.CaseStats) bool {
			return has(c, "apply.pipelined_batches", "snap.installed", "restart.applied_rewound")
		}})
}

func TestC09(t *testing.T) {
	simCheck(t, spec{Prop: "C09", Profiles: []string{"snap", "conf", "asnap"}, Steps: [2]int{300, 900},
		RuleText: caseText + "non-trivial = a MsgSnap was delivered (accepted, ignored, duplicated, to a non-member, or over an uncommitted tail)",
		Rule:     func(c *sim.CaseStats) bool { return has(c, "snap.delivered") }})
}

func TestC10(t *testing.T) {
	simCheck(t, spec{Prop: "C10", Profiles: []string{"conf", "confread"}, On: []string{"C11"}, Steps: [2]int{300, 900},
		RuleText: caseText + "non-trivial = a conf change was applied AND there was a second election, a restart, or a snapshot install",
		Rule: func(c *sim.CaseStats) bool {
			return has(c, "conf.applied") && (ge(c, "leader.elected", 2) || has(c, "restart", "snap.installed"))
		}})
}

func TestC11(t *testing.T) {
	simCheck(t, spec{Prop: "C11", Profiles: []string{"read"}, Steps: [2]int{300, 900},
		RuleText: caseText + "non-trivial = a read was answered AND it was issued at a non-leader, or a node was isolated, or >=2 campaigns happened",
		Rule: func(c *sim.CaseStats) bool {
			return has(c, "read.answered") && (has(c, "read.issued_at_non_leader", "net.isolate") || ge(c, "campaign.real", 2))
		}})
}

func TestC14(t *testing.T) {
	simCheck(t, spec{Prop: "C14", Profiles: []string{"all", "conf", "snap", "crash", "asnap"}, Steps: [2]int{400, 1200},
		RuleText: caseText + "non-trivial = the case executed >=3 of: crash+restart, conf change applied, snapshot install, message duplicate, message drop",
		Rule: func(c *sim.CaseStats) bool {
			n := 0
			for _, k := range []string{"restart", "conf.applied", "snap.installed", "net.dup", "net.drop"} {
				if c.C[k] > 0 {
					n++
				}
			}
			return n >= 3
		}})
}

func TestC15(t *testing.T) {
	simCheck(t, spec{Prop: "C15", Profiles: []string{"live", "conf", "snap", "flow", "asnap"}, Steps: [2]int{200, 500}, Liveness: true,
		RuleText: caseText + "then the fault-free suffix (all members of the committed config restarted, removed nodes stopped, links healed, every message delivered FIFO, snapshot outcomes reported, round-robin ticks for 60 x max(ElectionTick) rounds, fresh proposals and a ReadIndex at every member at half time) and the convergence oracle; non-trivial = the suffix started from a state with no leader / two leaders / a node down / an uncommitted tail / a follower paused or in StateSnapshot / a pending transfer / queued reads / a joint config / a partition",
		Rule: func(c *sim.CaseStats) bool {
			return has(c, "live.start_no_leader", "live.start_two_leaders", "live.start_node_down", "live.start_uncommitted_tail", "live.start_follower_in_snapshot",
				"live.start_follower_paused", "live.start_pending_transfer", "live.start_queued_reads", "live.start_joint", "live.start_partitioned", "live.start_unstable_entries")
		}})
}

func TestC16(t *testing.T) {
	simCheck(t, spec{Prop: "C16", Profiles: []string{"flow"}, Steps: [2]int{300, 900},
		RuleText: caseText + "non-trivial = a follower's inflight window was full, or a multi-entry append was sent, or a proposal was dropped and another accepted",
		Rule: func(c *sim.CaseStats) bool {
			return has(c, "flow.window_full", "app.multi_entry") || (has(c, "prop.dropped") && has(c, "prop.accepted"))
		}})
}

func TestC17(t *testing.T) {
	simCheck(t, spec{Prop: "C17", Profiles: []string{"elect"}, Steps: [2]int{300, 900},
		RuleText: caseText + "non-trivial = a pre-vote request was delivered, or a vote request arrived inside/outside a CheckQuorum lease, or a CheckQuorum leader stepped down",
		Rule: func(c *sim.CaseStats) bool {
			return has(c, "prevote.request_delivered", "lease.vote_request_inside_lease", "lease.vote_request_outside_lease", "leader.checkquorum_stepdown")
		}})
}

func TestC20(t *testing.T) {
	simCheck(t, spec{Prop: "C20", Profiles: []string{"base", "elect", "flow"}, Steps: [2]int{300, 900},
		RuleText: caseText + "non-trivial = a forwarded proposal was delivered, or a proposal was dropped and another one accepted",
		Rule: func(c *sim.CaseStats) bool {
			return has(c, "prop.forward_delivered") || (has(c, "prop.dropped") && has(c, "prop.accepted"))
		}})
}

// crashEnumeration draws one crash-free base schedule (profile crashbase:
// every Ready sub-step / storage-thread step is an action of its own) and then
// replays it once per (action boundary, node, crash variant): the node crashes
// at that boundary, restarts a few actions later, the rest of the schedule
// runs, everything is restarted and the network drained. A complete sweep of
// single-crash faults over that schedule.
func crashEnumeration(rt *rapid.T, sp spec, owned []string, col *sim.Collector) *sim.Violation {
	maxSteps := 60
	if tier() == "thorough" {
		maxSteps = 120
	}
	rec := &sim.RecordingDrawer{D: sim.RapidDrawer{T: rt}}
	base := sim.RunCase(rec, sim.CaseConfig{Profile: sim.Profiles["crashbase"], MaxSteps: maxSteps, Owned: owned})
	if base.Sim == nil || base.Violation != nil {
		if base.Violation != nil {
			writeFail(sp, base)
			return base.Violation
		}
		return nil
	}
	col.Add(base.Sim, base.Aborted, base.Excluded)
	col.Extra["enum.bases"] = asInt(col.Extra["enum.bases"]) + 1
	type variant struct {
		partial, lose, low bool
	}
	variants := []variant{{false, false, false}, {true, false, false}, {false, true, true}, {true, true, false}}
	n := base.Sim.ActionsRun
	for k := 0; k <= n; k++ {
		for _, id := range base.Sim.IDs {
			for vi, v := range variants {
				crashed := false
				restartAt := k + 1 + (vi%2)*4
				inject := func(s *sim.Sim, i int) {
					nd := s.Nodes[id]
					if (i == k || (i == -1 && k == n)) && !crashed && nd.Up {
						crashed = true
						s.Crash(nd, v.partial, v.lose)
					}
					if crashed && !nd.Up && (i >= restartAt || i == -1) {
						lo, hi := s.RestartRange(nd)
						a := hi
						if v.low {
							a = lo
						}
						s.Restart(nd, a)
					}
					if i == -1 {
						for _, x := range s.IDs {
							if xn := s.Nodes[x]; !xn.Up {
								_, hi := s.RestartRange(xn)
								s.Restart(xn, hi)
							}
						}
						s.Heal()
						s.Stabilize(10)
					}
				}
				res := sim.RunCase(&sim.ReplayDrawer{Vals: rec.Vals}, sim.CaseConfig{Profile: sim.Profiles["crashbase"], MaxSteps: maxSteps, Owned: owned, Inject: inject})
				col.Extra["enum.replays"] = asInt(col.Extra["enum.replays"]) + 1
				if res.Sim != nil {
					col.Add(res.Sim, res.Aborted, res.Excluded)
				}
				if res.Violation != nil {
					writeFail(sp, res)
					return res.Violation
				}
			}
		}
		col.Extra["enum.locations"] = asInt(col.Extra["enum.locations"]) + len(base.Sim.IDs)
	}
	col.Extra["enum.note"] = "per base schedule the sweep over (action boundary x node x 4 crash variants) is complete; base schedules are sampled"
	return nil
}

func asInt(v any) int {
	switch x := v.(type) {
	case int:
		return x
	case float64:
		return int(x)
	}
	return 0
}

func writeFail(sp spec, res sim.CaseResult) {
	if dir := os.Getenv("VERIF_OUT_DIR"); dir != "" {
		sim.WriteFailure(dir, fmt.Sprintf("%s-shard%s", sp.Prop, os.Getenv("VERIF_SHARD")), res)
	}
}
