package checks

import (
	"os"
	"strings"
	"testing"

	"go.etcd.io/raft/v3"
	pb "go.etcd.io/raft/v3/raftpb"
	"verif/harness/sim"
)

func cutPair(s *sim.Sim, a, b uint64) { s.BlockLink(a, b); s.BlockLink(b, a) }

// Scripted ABA (DESIGN: the race documented at newStorageAppendRespMsg): one
// index of follower 2 goes t1 -> t2 -> t1 while the acknowledgement of its
// first write is still on its way.
func TestReplay_C03_AckABA(t *testing.T) {
	w := world(5, []uint64{1, 2, 3, 4, 5}, func(id uint64, o *sim.NodeOpts) { o.Async = id == 2 })
	res := sim.RunScript(w, []string{"C03"}, nil, func(s *sim.Sim) {
		n1, n2, n3 := s.Nodes[1], s.Nodes[2], s.Nodes[3]
		elect(s, 1)
		n2.SlowAck = true
		for _, id := range []uint64{3, 4, 5} {
			cutPair(s, 1, id)
		}
		s.Propose(n1, 8)
		s.Stabilize(3)
		cutPair(s, 1, 2)
		// 3 is elected by 4 and 5; its entries reach 2 only
		s.TickUntilCampaign(n3)
		for r := 0; r < 8 && n3.RN.BasicStatus().RaftState != raft.StateLeader; r++ {
			s.Stabilize(1)
		}
		for _, id := range []uint64{4, 5} {
			cutPair(s, 3, id)
		}
		s.Propose(n3, 9)
		s.Stabilize(3)
		for _, id := range []uint64{1, 2, 4, 5} {
			cutPair(s, 3, id)
		}
		// 1 comes back to 4 and 5 and wins the next term
		s.Heal()
		for _, id := range []uint64{1, 2, 4, 5} {
			cutPair(s, 3, id)
		}
		cutPair(s, 1, 2)
		s.Tick(n1)
		s.Stabilize(3)
		s.TickUntilCampaign(s.Nodes[4])
		s.Stabilize(3)
		for i := 0; i < 4 && !(n1.RN.BasicStatus().RaftState == raft.StateLeader && n1.RN.BasicStatus().GetTerm() > 2); i++ {
			s.TickUntilCampaign(n1)
			s.Stabilize(6)
		}
		s.Heal()
		for _, id := range []uint64{1, 2, 4, 5} {
			cutPair(s, 3, id)
		}
		s.Tick(n1)
		var reapp *sim.Flight
		for r := 0; r < 8 && reapp == nil; r++ {
			for _, id := range []uint64{1, 2, 4, 5} {
				s.Service(s.Nodes[id])
			}
			for _, fl := range s.Net.Pool {
				if fl.From == 1 && fl.To == 2 && fl.M.GetType() == pb.MsgApp && len(fl.M.GetEntries()) > 1 {
					reapp = fl
					fl.Held = true
				}
			}
			if reapp == nil {
				s.Stabilize(1)
			}
		}
		n2.SlowAppend = true
		if reapp != nil {
			reapp.Held = false
			for i, fl := range s.Net.Pool {
				if fl == reapp {
					s.Deliver(i, false)
					break
				}
			}
		}
		n2.SlowAck = false
		s.Service(n2)
		n2.SlowAppend = false
		s.Stabilize(6)
	})
	for _, k := range []string{"storage.ack_of_older_term", "storage.ack_of_older_term_matches_unstable", "storage.ack_aba_older_term", "log.tail_overwritten"} {
		t.Logf("%s = %d", k, res.Sim.Stats.C[k])
	}
	report(t, res)
	if res.Sim.Stats.C["storage.ack_aba_older_term"] == 0 {
		t.Logf("trace:\n%s", strings.Join(res.Sim.Trace, "\n"))
	}
}

// Scripted reach test: a deposed leader whose divergent tail is still in its
// unstable log (its append acks lag) receives a snapshot that ends inside
// that tail.
func TestReplay_C09_SnapshotInsideUnstableTail(t *testing.T) {
	w := world(3, []uint64{1, 2, 3}, func(id uint64, o *sim.NodeOpts) { o.Async = id == 1 })
	res := sim.RunScript(w, []string{"C09", "C01"}, nil, func(s *sim.Sim) {
		n1, n2 := s.Nodes[1], s.Nodes[2]
		elect(s, 1)
		n1.SlowAck = true
		s.Isolate(n1)
		for i := 0; i < 4; i++ {
			s.Propose(n1, 8)
		}
		s.Service(n1)
		for i := 0; i < 3 && n2.RN.BasicStatus().RaftState != raft.StateLeader; i++ {
			s.TickUntilCampaign(n2)
			s.Stabilize(6)
		}
		s.Propose(n2, 9)
		s.Stabilize(6)
		if lo, hi := s.RestartRange(n2); hi > lo {
			s.Compact(n2, hi, hi)
		}
		dropAll(s) // what was sent across the partition is lost
		s.Heal()
		for i := 0; i < 3; i++ {
			s.Tick(n2)
			s.Stabilize(4)
		}
		n1.SlowAck = false
		s.Stabilize(6)
	})
	for _, k := range []string{"snap.accepted", "snap.accepted_over_uncommitted_tail", "snap.accepted_inside_unstable_tail"} {
		t.Logf("%s = %d", k, res.Sim.Stats.C[k])
	}
	report(t, res)
	if res.Sim.Stats.C["snap.accepted_inside_unstable_tail"] == 0 {
		t.Logf("trace:\n%s", strings.Join(res.Sim.Trace, "\n"))
	}
}

// Scripted reach test (C06): node 2 wins an election while an entry of the
// old term is still in its unstable log (its write was queued when the
// campaign started, so the acknowledgement carries the old term and is
// ignored); the first acknowledgement from a follower covers only that entry.
func TestReplay_C06_LeaderWithOldTermUnstableEntry(t *testing.T) {
	w := world(3, []uint64{1, 2, 3}, func(id uint64, o *sim.NodeOpts) {
		o.Async = id == 2
		o.MaxSizePerMsg = 1
	})
	res := sim.RunScript(w, []string{"C06", "C01"}, nil, func(s *sim.Sim) {
		n1, n2 := s.Nodes[1], s.Nodes[2]
		elect(s, 1)
		n2.SlowAppend = true
		cutPair(s, 1, 3)
		s.Propose(n1, 8)
		s.Stabilize(4)
		s.Isolate(n1)
		s.TickUntilCampaign(n2)
		n2.SlowAppend, n2.SlowAck = false, true
		for r := 0; r < 10 && n2.RN.BasicStatus().RaftState != raft.StateLeader; r++ {
			s.Stabilize(1)
			s.HandOverAllButCurrentTermAcks(n2)
		}
		s.Stabilize(5)
		n2.SlowAck = false
		s.Stabilize(5)
	})
	for _, k := range []string{"storage.ack_of_older_term", "commit.leader_advance"} {
		t.Logf("%s = %d", k, res.Sim.Stats.C[k])
	}
	if os.Getenv("VERIF_DEBUG") != "" {
		t.Logf("trace:\n%s", strings.Join(res.Sim.Trace, "\n"))
	}
	report(t, res)
}
