package checks

import (
	"os"
	"strings"
	"testing"

	"go.etcd.io/raft/v3"
	pb "go.etcd.io/raft/v3/raftpb"
	"verif/harness/sim"
)

// Scripted schedules (DESIGN Appendix B): deterministic regressions executed
// by the same simulator with the same monitors. They run in the quick tier of
// their property before the generated search (cmd/driver ExtraRun).

func world(n int, voters []uint64, f func(id uint64, o *sim.NodeOpts)) sim.WorldOpts {
	w := sim.WorldOpts{Nodes: map[uint64]sim.NodeOpts{}, BootIndex: 1}
	for i := 1; i <= n; i++ {
		id := uint64(i)
		w.IDs = append(w.IDs, id)
		o := sim.DefaultNodeOpts()
		o.Timeout = o.ElectionTick + (i-1)%o.ElectionTick
		if f != nil {
			f(id, &o)
		}
		w.Nodes[id] = o
	}
	w.Voters = voters
	return w
}

func elect(s *sim.Sim, id uint64) {
	s.TickUntilCampaign(s.Nodes[id])
	s.Stabilize(10)
}

func report(t *testing.T, res sim.CaseResult) {
	t.Helper()
	if res.Violation != nil {
		if dir := os.Getenv("VERIF_OUT_DIR"); dir != "" {
			sim.WriteFailure(dir, strings.ReplaceAll(t.Name(), "/", "_"), res)
		}
		t.Fatalf("%s", res.Violation.Error())
	}
}

// C11 regression 1: sole voter, commit-only (un-synced) hard state lost in a
// crash, read right after re-election (fixed by "fix: postpone ReadIndex on a
// single-voter leader until it committed in its term").
func TestReplay_C11_SoleVoterLostCommit(t *testing.T) {
	w := world(1, []uint64{1}, func(id uint64, o *sim.NodeOpts) { o.LazySync = true })
	report(t, sim.RunScript(w, []string{"C11"}, nil, func(s *sim.Sim) {
		n := s.Nodes[1]
		elect(s, 1)
		s.Propose(n, 8)
		s.Stabilize(10) // x committed, applied; the commit-only hard state is written un-synced
		s.Crash(n, false, true)
		lo, _ := s.RestartRange(n)
		s.Restart(n, lo)
		s.TickUntilCampaign(n)
		// become leader but do not let the term's first entry commit yet
		for i := 0; i < 6 && n.Up && s.Leader() == nil; i++ {
			s.FineStep(n)
		}
		s.ReadIndex(n, "")
		s.Stabilize(10)
	}))
}

// C11 regression 2: voters {1,2}, leader 1 removes itself (no step-down),
// gets isolated, node 2 elects itself and commits, then a read at node 1.
func TestReplay_C11_RemovedLeaderSingleVoter(t *testing.T) {
	w := world(2, []uint64{1, 2}, nil)
	report(t, sim.RunScript(w, []string{"C11"}, nil, func(s *sim.Sim) {
		elect(s, 1)
		s.ProposeConf(s.Nodes[1], &pb.ConfChangeV2{Changes: []*pb.ConfChangeSingle{{Type: pb.ConfChangeRemoveNode.Enum(), NodeId: new(uint64(1))}}}, false)
		s.Stabilize(10)
		s.Isolate(s.Nodes[1])
		elect(s, 2)
		s.Propose(s.Nodes[2], 8)
		s.Stabilize(10)
		s.ReadIndex(s.Nodes[1], "")
		s.Service(s.Nodes[1])
	}))
}

// C14 regression: MaxSizePerMsg = 0 with MaxCommittedSizePerReady unset
// (fresh start, and restart with Applied > 0).
func TestReplay_C14_ZeroApplyQuota(t *testing.T) {
	w := world(1, []uint64{1}, func(id uint64, o *sim.NodeOpts) { o.MaxSizePerMsg, o.MaxCommittedSizePerReady = 0, 0 })
	w.BootPeers, w.BootIndex = true, 0
	report(t, sim.RunScript(w, []string{"C14", "C15"}, nil, func(s *sim.Sim) {
		n := s.Nodes[1]
		s.Stabilize(5)
		elect(s, 1)
		s.Propose(n, 8)
		s.Stabilize(10)
		s.Crash(n, false, false)
		_, hi := s.RestartRange(n)
		s.Restart(n, hi)
		elect(s, 1)
		s.Propose(n, 8)
		s.Stabilize(10)
		s.LivenessSuffix()
	}))
}

// C17 regression: delayed pre-vote grants of an earlier pre-campaign.
func TestReplay_C17_StalePreVoteGrant(t *testing.T) {
	w := world(3, []uint64{1, 2, 3}, func(id uint64, o *sim.NodeOpts) { o.PreVote = true })
	report(t, sim.RunScript(w, []string{"C17"}, nil, func(s *sim.Sim) {
		n := s.Nodes[1]
		s.TickUntilCampaign(n)
		s.Service(n) // MsgPreVote to 2 and 3
		deliverAll(s, pb.MsgPreVote)
		s.Service(s.Nodes[2])
		s.Service(s.Nodes[3])
		// only node 2's grant arrives: with the self grant node 1 becomes candidate at term 1
		deliverOne(s, pb.MsgPreVoteResp, 2)
		s.Service(n)
		// the election does not conclude; node 1 times out again: pre-candidate for term 2
		s.TickUntilCampaign(n)
		s.Service(n)
		// the delayed term-1 grant of node 3 arrives now
		deliverOne(s, pb.MsgPreVoteResp, 3)
		s.Service(n)
	}))
}

// C15 known finding: the sole voter is replaced in one joint change.
func TestReplay_C15_MajorityOfVoterSetRemoved(t *testing.T) {
	w := world(2, []uint64{1}, func(id uint64, o *sim.NodeOpts) { o.StepDownOnRemoval = true })
	res := sim.RunScript(w, []string{"C15"}, nil, func(s *sim.Sim) {
		elect(s, 1)
		cc := &pb.ConfChangeV2{Changes: []*pb.ConfChangeSingle{
			{Type: pb.ConfChangeAddNode.Enum(), NodeId: new(uint64(2))},
			{Type: pb.ConfChangeRemoveNode.Enum(), NodeId: new(uint64(1))},
		}}
		s.ProposeConf(s.Nodes[1], cc, false)
		s.Stabilize(3) // joint config entered everywhere, leave-joint proposed by the leader
		// node 2 acknowledges the leave-joint entry but never learns that it committed
		for i := 0; i < 40; i++ {
			s.Service(s.Nodes[1])
			cfg := s.Nodes[1].RN.Status().Config
			if _, has2 := cfg.Voters[0][2]; has2 && len(cfg.Voters[1]) == 0 {
				break // node 1 applied the leave-joint entry: it is no longer a voter
			}
			deliverAllTo(s, 2)
			s.Service(s.Nodes[2])
			deliverOneType(s, pb.MsgAppResp)
		}
		dropAll(s)
		s.LivenessSuffix()
	})
	if res.Violation == nil {
		t.Logf("the sole-voter-replaced history converged: the known finding did not reproduce on this tree")
		return
	}
	if res.Violation.Sig != "c15.not_converged/stale_quorum_lost" {
		report(t, res)
	}
	t.Logf("KNOWN-FINDING-REPRODUCED %s: %s", res.Violation.Sig, res.Violation.Msg)
}

func deliverAll(s *sim.Sim, typ pb.MessageType) {
	for again := true; again; {
		again = false
		for i, f := range s.Net.Pool {
			if f.M.GetType() == typ {
				s.Deliver(i, false)
				again = true
				break
			}
		}
	}
}

func deliverOne(s *sim.Sim, typ pb.MessageType, from uint64) {
	for i, f := range s.Net.Pool {
		if f.M.GetType() == typ && f.From == from {
			s.Deliver(i, false)
			return
		}
	}
}

func deliverOneType(s *sim.Sim, typ pb.MessageType) {
	for i, f := range s.Net.Pool {
		if f.M.GetType() == typ {
			s.Deliver(i, false)
			return
		}
	}
}

func deliverAllTo(s *sim.Sim, to uint64) {
	for again := true; again; {
		again = false
		for i, f := range s.Net.Pool {
			if f.To == to && s.Nodes[to].Up {
				s.Deliver(i, false)
				again = true
				break
			}
		}
	}
}

func dropAll(s *sim.Sim) {
	for len(s.Net.Pool) > 0 {
		s.Drop(0)
	}
}

// knownFindingScenario runs a scripted history that reproduces an open known
// finding: a violation whose signature names the finding is expected.
func knownFindingScenario(t *testing.T, res sim.CaseResult, finding string) {
	t.Helper()
	if res.Violation == nil {
		t.Logf("the scripted history of known finding %s did not reproduce on this tree", finding)
		return
	}
	if !strings.Contains(res.Violation.Sig, finding) {
		report(t, res)
	}
	t.Logf("KNOWN-FINDING-REPRODUCED %s: %s", res.Violation.Sig, res.Violation.Msg)
}

func hasConfEntry(ents []*pb.Entry) bool {
	for _, e := range ents {
		if e.GetType() != pb.EntryNormal {
			return true
		}
	}
	return false
}

// Known finding raft.stale_config_campaign: voters {1,2,3}; 4 and 5 are added
// by two simple changes while 3 lags; 3 then persists the entries carrying
// both changes but crashes before the hard state with their commit index is
// written (README order: entries first, then hard state); after the restart
// it does not know that they are committed, campaigns with config {1,2,3} and
// wins with node 1's vote, while {2,4,5} keeps committing.
func TestReplay_C01_StaleConfigCampaign(t *testing.T) {
	w := world(5, []uint64{1, 2, 3}, nil)
	res := sim.RunScript(w, []string{"C01", "C02", "C04", "C06"}, nil, func(s *sim.Sim) {
		add := func(id uint64) *pb.ConfChangeV2 {
			return &pb.ConfChangeV2{Changes: []*pb.ConfChangeSingle{{Type: pb.ConfChangeAddNode.Enum(), NodeId: new(id)}}}
		}
		elect(s, 2)
		s.Isolate(s.Nodes[3])
		s.ProposeConf(s.Nodes[2], add(4), false)
		s.Stabilize(12)
		s.ProposeConf(s.Nodes[2], add(5), false)
		s.Stabilize(12)
		s.Heal()
		n3 := s.Nodes[3]
		for i := 0; i < 30 && n3.Up; i++ {
			s.Tick(s.Nodes[2])
			s.Service(s.Nodes[2])
			deliverAllTo(s, 3)
			if n3.RN.HasReady() {
				s.TakeReady(n3)
				if hasConfEntry(n3.Rd.Entries) {
					s.PersistEntries(n3) // entries durable, hard state not yet
					s.Crash(n3, false, false)
					break
				}
				s.Service(n3)
			}
			deliverAllTo(s, 2)
		}
		dropAll(s)
		_, hi := s.RestartRange(n3)
		s.Restart(n3, hi)
		for _, a := range []uint64{1, 3} {
			for _, b := range []uint64{2, 4, 5} {
				s.BlockLink(a, b)
				s.BlockLink(b, a)
			}
		}
		s.TickUntilCampaign(n3)
		s.Stabilize(10)
		s.Propose(n3, 8)
		s.Propose(s.Nodes[2], 8)
		s.Stabilize(10)
	})
	knownFindingScenario(t, res, "raft.stale_config_campaign")
}

// C02 regression (fixed by "fix: a candidate does not become leader before its
// own vote is durable"): node 2 (AsyncStorageWrites, stalled append thread)
// campaigns; its MsgVote leaves before term and self-vote are durable; 1 and 3
// grant. Before the fix it became leader, replicated an entry to node 1,
// crashed, restarted in term 0, won term 1 again and replicated a different
// entry with the same index and term to node 3.
func TestReplay_C02_AsyncLeaderTermNotDurable(t *testing.T) {
	w := world(3, []uint64{1, 2, 3}, func(id uint64, o *sim.NodeOpts) { o.Async = id == 2 })
	owned := []string{"C02", "C03"}
	if os.Getenv("VERIF_SCENARIO_C03_ONLY") != "" {
		owned = []string{"C03"} // shows the consequence: two entries with one (index, term)
	}
	res := sim.RunScript(w, owned, nil, func(s *sim.Sim) {
		n := s.Nodes[2]
		n.SlowAppend = true
		s.TickUntilCampaign(n)
		s.Service(n) // MsgVote released, the hard state write stays queued
		deliverAll(s, pb.MsgVote)
		s.Service(s.Nodes[1])
		s.Service(s.Nodes[3])
		deliverAll(s, pb.MsgVoteResp)
		s.Service(n)
		s.Propose(n, 8)
		s.Service(n)
		deliverAllTo(s, 1)
		s.Service(s.Nodes[1])
		dropAll(s)
		s.Crash(n, false, false)
		_, hi := s.RestartRange(n)
		s.Restart(n, hi)
		s.TickUntilCampaign(n)
		s.Stabilize(10)
		s.Propose(n, 9)
		s.Stabilize(10)
	})
	report(t, res)
}

// C04/C01 regression (fixed by "fix: do not request votes for a log that is
// not durable yet"): node 2 (AsyncStorageWrites, stalled append thread) holds
// a committed entry x only in its unstable log, campaigns and advertises x in
// its MsgVote before anything is durable; node 1 grants. Node 2 crashes, loses
// x and the new term, restarts, campaigns for the same term again - now
// without x - and the grant meant for its earlier self makes it leader of a
// log that lacks a committed entry.
func asyncVoteForUnstableLog(t *testing.T, owned []string) {
	w := world(3, []uint64{1, 2, 3}, func(id uint64, o *sim.NodeOpts) { o.Async = id == 2 })
	res := sim.RunScript(w, owned, nil, func(s *sim.Sim) {
		n1, n2, n3 := s.Nodes[1], s.Nodes[2], s.Nodes[3]
		elect(s, 3)
		n2.SlowAppend = true
		s.Propose(n3, 8)
		s.Stabilize(6) // x committed on {1,3}; node 2 holds it unstable, its write is queued
		s.Isolate(n3)
		s.TickUntilCampaign(n2)
		s.Service(n2) // MsgVote(last = x) may leave although nothing is durable
		deliverAllTo(s, 1)
		s.Service(n1) // node 1 grants durably; the grant is in flight
		s.Crash(n2, false, false)
		_, hi := s.RestartRange(n2)
		n2.SlowAppend = false
		s.Restart(n2, hi)
		s.TickUntilCampaign(n2) // same term again, log without x
		s.Service(n2)
		deliverAllTo(s, 2)
		s.Service(n2)
		s.Stabilize(6)
		s.Propose(n2, 9)
		s.Heal()
		s.Stabilize(10)
	})
	report(t, res)
}

func TestReplay_C04_AsyncVoteForUnstableLog(t *testing.T) {
	asyncVoteForUnstableLog(t, []string{"C04"})
}
func TestReplay_C01_AsyncVoteForUnstableLog(t *testing.T) {
	asyncVoteForUnstableLog(t, []string{"C01", "C06"})
}
func TestReplay_C05_AsyncVoteForUnstableLog(t *testing.T) {
	asyncVoteForUnstableLog(t, []string{"C04", "C01", "C05"})
}

// C15 finding (thorough tier, macro LeaveDuringTransfer): a conf-change
// proposal that appendEntry drops (uncommitted-size limit) has already moved
// pendingConfIndex past the end of the log. A leader in an auto-leave joint
// configuration then never proposes the leave (it waits for the applied index
// to reach an index that does not exist), and later conf changes are refused,
// until some other entries happen to be appended and applied.
func droppedConfChangeBlocksAutoLeave(t *testing.T, owned []string) sim.CaseResult {
	w := world(3, []uint64{1, 2, 3}, func(id uint64, o *sim.NodeOpts) { o.MaxUncommittedEntriesSize = 10 })
	return sim.RunScript(w, owned, nil, func(s *sim.Sim) {
		n1, n2, n3 := s.Nodes[1], s.Nodes[2], s.Nodes[3]
		elect(s, 1)
		// joint change with auto-leave whose leave proposal is dropped by a
		// pending transfer to an unreachable node
		cc := &pb.ConfChangeV2{Transition: pb.ConfChangeTransitionJointImplicit.Enum(),
			Changes: []*pb.ConfChangeSingle{{Type: pb.ConfChangeAddLearnerNode.Enum(), NodeId: new(uint64(3))}}}
		s.ProposeConf(n1, cc, false)
		s.Isolate(n3)
		s.TransferLeader(n1, 3)
		s.Stabilize(8)
		// node 2 takes over (the joint config is still in force), is cut off
		// before anything of its term commits, accepts one proposal that fills the quota
		s.Heal()
		for i := 0; i < 4 && n2.RN.BasicStatus().RaftState != raft.StateLeader; i++ {
			s.TickUntilCampaign(n2)
			for r := 0; r < 8 && n2.RN.BasicStatus().RaftState != raft.StateLeader; r++ {
				s.Stabilize(1)
			}
		}
		s.Isolate(n2)
		s.Propose(n2, 10) // fills the quota
		// an explicit leave-joint proposal of the application (it carries a
		// context, so it has a size): passes the checks, moves
		// pendingConfIndex, and is then dropped by appendEntry
		s.ProposeConf(n2, &pb.ConfChangeV2{}, false)
		s.Heal()
		// a fault-free suffix without further proposals: twenty election
		// timeouts of ticks with everything delivered
		for r := 0; r < 20*4; r++ {
			for _, id := range []uint64{1, 2, 3} {
				s.Tick(s.Nodes[id])
			}
			s.Stabilize(4)
		}
	})
}

func TestReplay_C15_DroppedConfChangeBlocksAutoLeave(t *testing.T) {
	res := droppedConfChangeBlocksAutoLeave(t, []string{"C15"})
	report(t, res)
	for _, id := range []uint64{1, 2, 3} {
		if st := res.Sim.Nodes[id].RN.VerifState(); len(st.VotersOutgoing) > 0 && st.AutoLeave {
			t.Fatalf("VIOLATION[C15/converges sig=c15.not_converged step=0]: after a fault-free suffix of 20 election timeouts node %d (%v) is still in the auto-leave joint config voters=%v&&%v (pendingConfIndex %d, last index %d, applied %d): the leave was never proposed",
				id, st.State, st.Voters, st.VotersOutgoing, st.PendingConfIndex, st.LastIndex, st.Applied)
		}
	}
}
