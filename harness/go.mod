module verif/harness

go 1.26

require (
	go.etcd.io/raft/v3 v3.0.0
	google.golang.org/protobuf v1.36.12
	pgregory.net/rapid v1.3.0
)

replace go.etcd.io/raft/v3 => /repo
