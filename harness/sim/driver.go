package sim

import (
	"fmt"
	"math"
	"os"
	"runtime/debug"
	"strings"

	"google.golang.org/protobuf/proto"
	"pgregory.net/rapid"

	"go.etcd.io/raft/v3"
	pb "go.etcd.io/raft/v3/raftpb"
	"verif/harness/refmodel"
)

// RapidDrawer draws from a rapid.T.
type RapidDrawer struct{ T *rapid.T }

func (r RapidDrawer) Int(lo, hi int, label string) int {
	if hi <= lo {
		return lo
	}
	return rapid.IntRange(lo, hi).Draw(r.T, label)
}

// FixedDrawer always returns the lower bound (scripted schedules).
type FixedDrawer struct{}

func (FixedDrawer) Int(lo, hi int, label string) int { return lo }

// Profile is a weight table plus world-generation knobs.
type Profile struct {
	Name string
	W    map[string]int // action kind -> weight

	// percentages for world features
	PAsync, PPreVote, PCheckQuorum, PStepDown, PNoFwd, PLease int
	PBootPeers                                                int
	PTinyLimits                                               int  // chance a node gets tiny flow-control limits
	PJoiner                                                   int  // chance that not all ids are initial members
	PSingle                                                   int  // extra chance of a 1-voter group
	UniformFeatures                                           bool // all nodes share PreVote/CheckQuorum
	UniformTicks                                              bool // all nodes share ElectionTick/HeartbeatTick
	PFive                                                     int  // extra chance of five voters, all initial members
	PBigGroup                                                 int  // chance of a group of 8..10 ids
	PNoCCVal                                                  int  // chance that the group runs with DisableConfChangeValidation
	AllowZeroApplyQuota                                       bool
	PSnapStored                                               int
	MaxPayload                                                int
}

var baseWeights = map[string]int{
	"service": 30, "step": 12, "deliver": 30, "dup": 2, "drop": 3,
	"tick": 12, "tickall": 6, "tickcampaign": 2, "stabilize": 4,
	"propose": 8, "proposebatch": 1, "proposeconf": 2, "transfer": 1, "readindex": 2,
	"campaign": 1, "forget": 1, "unreachable": 1, "reportsnap": 3, "compact": 1,
	"crash": 1, "restart": 4, "isolate": 1, "blocklink": 1, "heal": 2,
	"duprecent": 2, "diverge": 1, "proposemixed": 1, "burst": 3, "slowdisk": 2, "lagcompact": 1, "stallelect": 1, "hold": 1, "release": 2, "snaprace": 0, "snapunavail": 1, "comeback": 1, "crashrecampaign": 1, "snapthenapp": 0, "leavexfer": 0,
}

func mkProfile(name string, over map[string]int, f func(p *Profile)) *Profile {
	p := &Profile{Name: name, W: map[string]int{}, PAsync: 40, PPreVote: 40, PCheckQuorum: 40, PStepDown: 30, PNoFwd: 15,
		PLease: 10, PBootPeers: 20, PTinyLimits: 25, PJoiner: 30, PSingle: 5, PSnapStored: 30, MaxPayload: 120, PFive: 15}
	for k, v := range baseWeights {
		p.W[k] = v
	}
	for k, v := range over {
		p.W[k] = v
	}
	if f != nil {
		f(p)
	}
	return p
}

// Profiles (DESIGN §4).
var Profiles = map[string]*Profile{
	"base": mkProfile("base", nil, nil),
	"elect": mkProfile("elect", map[string]int{"tick": 20, "tickall": 10, "tickcampaign": 6, "campaign": 4, "transfer": 4,
		"dup": 6, "crash": 3, "restart": 8, "propose": 4, "forget": 2, "isolate": 3, "comeback": 3, "crashrecampaign": 3}, func(p *Profile) { p.PPreVote, p.PCheckQuorum = 50, 50 }),
	"crash": mkProfile("crash", map[string]int{"comeback": 2, "crashrecampaign": 4, "stallelect": 3, "crash": 6, "restart": 14, "step": 30, "service": 15, "propose": 10}, func(p *Profile) { p.PAsync = 60 }),
	"snap": mkProfile("snap", map[string]int{"snapthenapp": 3, "diverge": 3, "compact": 8, "lagcompact": 5, "snaprace": 4, "hold": 2, "isolate": 4, "heal": 4, "propose": 12, "proposeconf": 3, "dup": 5,
		"reportsnap": 6, "crash": 2}, func(p *Profile) { p.PJoiner = 60 }),
	"conf": mkProfile("conf", map[string]int{"leavexfer": 2, "proposeconf": 10, "tickcampaign": 4, "campaign": 3, "crash": 2, "restart": 6,
		"isolate": 3, "compact": 3, "step": 20}, func(p *Profile) { p.PJoiner = 70; p.PNoCCVal = 15 }),
	// confread: membership changes with reads issued while configurations are
	// joint (explicit joint changes stay joint until somebody proposes to leave)
	"confread": mkProfile("confread", map[string]int{"proposeconf": 8, "readindex": 12, "isolate": 4, "blocklink": 3, "heal": 3, "tickcampaign": 3, "campaign": 2,
		"crash": 2, "restart": 6, "step": 20, "comeback": 2}, func(p *Profile) { p.PJoiner = 50; p.PLease = 0; p.PFive = 30 }),
	"read": mkProfile("read", map[string]int{"comeback": 4, "readindex": 14, "isolate": 4, "heal": 3, "tickcampaign": 4, "campaign": 3, "proposeconf": 4,
		"crash": 3, "restart": 8, "dup": 4, "step": 20}, func(p *Profile) { p.PLease = 0; p.PSingle = 25 }),
	"flow": mkProfile("flow", map[string]int{"comeback": 2, "stallelect": 4, "propose": 25, "proposebatch": 6, "drop": 8, "unreachable": 4, "dup": 4, "step": 15},
		func(p *Profile) { p.PTinyLimits = 85; p.MaxPayload = 300 }),
	"all": mkProfile("all", map[string]int{"proposeconf": 4, "compact": 3, "crash": 2, "restart": 6, "readindex": 3, "transfer": 2,
		"dup": 4, "isolate": 2}, func(p *Profile) { p.AllowZeroApplyQuota = true }),
	// asnap: asynchronous storage threads that stall, combined with frequent
	// compaction (snapshots) and frequent leader changes.
	"asnap": mkProfile("asnap", map[string]int{"snapthenapp": 3, "diverge": 3, "compact": 10, "slowdisk": 8, "lagcompact": 6, "stallelect": 5, "snaprace": 4, "hold": 2, "transfer": 6, "tickcampaign": 5, "campaign": 3, "propose": 12,
		"isolate": 3, "heal": 4, "step": 10, "burst": 5, "reportsnap": 6, "dup": 4}, func(p *Profile) { p.PAsync = 90; p.PJoiner = 50 }),
	// det: union profile with large groups (sets of more than 7 ids are
	// iterated through different code paths) for the determinism check.
	"det": mkProfile("det", map[string]int{"proposeconf": 4, "compact": 2, "crash": 1, "restart": 4, "readindex": 3, "transfer": 2, "dup": 3},
		func(p *Profile) { p.PBigGroup = 35; p.PJoiner = 40 }),
	// crashbase: crash-free base schedules for the single-crash enumeration
	// (C05): every Ready sub-step and storage-thread step is its own action,
	// so every point the contract allows a crash at is an action boundary.
	"crashbase": mkProfile("crashbase", map[string]int{"comeback": 0, "crashrecampaign": 0, "service": 0, "stabilize": 0, "step": 60, "deliver": 40, "crash": 0, "restart": 0,
		"propose": 12, "tick": 10, "tickall": 6, "diverge": 0, "lagcompact": 0, "stallelect": 0, "burst": 2, "slowdisk": 1, "compact": 2,
		"proposeconf": 2, "dup": 3, "drop": 2}, func(p *Profile) { p.PAsync = 50 }),
	"live": mkProfile("live", map[string]int{"leavexfer": 3, "snapthenapp": 2, "lagcompact": 2, "proposeconf": 5, "compact": 3, "crash": 3, "restart": 4, "readindex": 2, "transfer": 3,
		"dup": 3, "isolate": 3, "drop": 6, "propose": 12, "unreachable": 2}, func(p *Profile) { p.AllowZeroApplyQuota = true; p.PTinyLimits = 40 }),
}

func pct(d Drawer, p int, label string) bool { return d.Int(0, 99, label) < p }

func pick[T any](d Drawer, label string, xs ...T) T { return xs[d.Int(0, len(xs)-1, label)] }

// DrawWorld draws the initial cluster.
func DrawWorld(d Drawer, p *Profile) WorldOpts {
	nTab := []int{3, 3, 3, 3, 5, 5, 1, 2, 4, 4}
	N := nTab[d.Int(0, len(nTab)-1, "N")]
	if single, sn := pct(d, p.PSingle, "single"), pick(d, "singleN", 1, 2); single {
		N = sn
	}
	if big, bn := pct(d, p.PBigGroup, "biggroup"), d.Int(8, 10, "bigN"); p.PBigGroup > 0 && big {
		N = bn
	}
	five := pct(d, p.PFive, "five")
	if five && N <= 5 {
		N = 5
	}
	w := WorldOpts{Nodes: map[uint64]NodeOpts{}}
	for i := 1; i <= N; i++ {
		w.IDs = append(w.IDs, uint64(i))
	}
	members := N
	joiner, mraw := pct(d, p.PJoiner, "joiner"), d.Int(0, 9, "members")
	if N > 1 && joiner && !five {
		members = 1 + mraw%(N-1)
	}
	learners := 0
	if lr := pct(d, 20, "learner"); members >= 2 && lr && !five {
		learners = 1
	}
	for i := 1; i <= members-learners; i++ {
		w.Voters = append(w.Voters, uint64(i))
	}
	for i := members - learners + 1; i <= members; i++ {
		w.Learners = append(w.Learners, uint64(i))
	}
	w.BootPeers = pct(d, p.PBootPeers, "bootpeers")
	bi := uint64(d.Int(1, 3, "bootindex"))
	if w.BootPeers {
		// Bootstrap(peers) knows only voters
		w.Voters = append(w.Voters, w.Learners...)
		w.Learners = nil
	} else {
		w.BootIndex = bi
	}
	noCCVal := pct(d, p.PNoCCVal, "noccval")
	uniPre, uniCQ := pct(d, p.PPreVote, "uprevote"), pct(d, p.PCheckQuorum, "ucheckq")
	mixed := !p.UniformFeatures && pct(d, 25, "mixed")
	// node options are drawn for a fixed number of ids (only the first N are
	// used) so that the world occupies a fixed number of draws: shrinking N
	// then does not misalign the rest of the case.
	const maxIDs = 10
	for i := 1; i <= maxIDs; i++ {
		o := drawNodeOpts(d, p, uint64(i), uniPre, uniCQ, mixed)
		o.DisableConfChangeValidation = noCCVal
		if i <= N {
			w.Nodes[uint64(i)] = o
		}
	}
	if p.UniformTicks {
		// CheckQuorum must be uniform for bounded liveness: a node without
		// CheckQuorum/PreVote that ran ahead in term is only pulled back by
		// the MsgAppResp it sends in response to a lower-term heartbeat, which
		// it sends only if it has CheckQuorum or PreVote itself, while
		// CheckQuorum peers ignore its vote requests inside their lease.
		for _, id := range w.IDs {
			o := w.Nodes[id]
			o.CheckQuorum = uniCQ
			if !o.CheckQuorum {
				o.LeaseRead = false
			}
			w.Nodes[id] = o
		}
		// every real deployment uses one ElectionTick/HeartbeatTick for the
		// whole group; bounded liveness (C15) is only claimed for that.
		first := w.Nodes[w.IDs[0]]
		for _, id := range w.IDs[1:] {
			o := w.Nodes[id]
			o.ElectionTick, o.HeartbeatTick = first.ElectionTick, first.HeartbeatTick
			o.Timeout = d.Int(o.ElectionTick, 2*o.ElectionTick-1, fmt.Sprintf("utimeout%d", id))
			w.Nodes[id] = o
		}
	}
	return w
}

func drawNodeOpts(d Drawer, p *Profile, id uint64, uniPre, uniCQ, mixed bool) NodeOpts {
	l := func(s string) string { return fmt.Sprintf("%s%d", s, id) }
	o := NodeOpts{}
	o.ElectionTick = pick(d, l("et"), 3, 4, 5, 6, 8, 10)
	o.HeartbeatTick = 1
	if hb2 := pct(d, 30, l("hb2")); o.ElectionTick > 3 && hb2 {
		o.HeartbeatTick = 2
	}
	o.Timeout = o.ElectionTick + d.Int(0, 9, l("timeout"))%o.ElectionTick
	o.PreVote, o.CheckQuorum = uniPre, uniCQ
	if mp, mc := pct(d, p.PPreVote, l("prevote")), pct(d, p.PCheckQuorum, l("checkq")); mixed {
		o.PreVote, o.CheckQuorum = mp, mc
	}
	o.Async = pct(d, p.PAsync, l("async"))
	o.StepDownOnRemoval = pct(d, p.PStepDown, l("stepdown"))
	o.DisableProposalForwarding = pct(d, p.PNoFwd, l("nofwd"))
	if lease := pct(d, p.PLease, l("lease")); o.CheckQuorum && lease {
		o.LeaseRead = true
	}
	o.LazySync = pct(d, 50, l("lazysync"))
	if pct(d, p.PSnapStored, l("snapstored")) {
		o.SnapMode = SnapStored
	}
	inf := uint64(math.MaxUint64)
	if pct(d, p.PTinyLimits, l("tiny")) {
		o.MaxSizePerMsg = pick(d, l("msgsz"), uint64(0), 1, 40, 120)
		o.MaxInflightMsgs = pick(d, l("infl"), 1, 2, 3)
		o.MaxInflightBytes = pick(d, l("inflb"), uint64(0), 0, 60, 200)
		if o.MaxInflightBytes != 0 && o.MaxInflightBytes < o.MaxSizePerMsg {
			o.MaxInflightBytes = o.MaxSizePerMsg
		}
		o.MaxUncommittedEntriesSize = pick(d, l("uncom"), uint64(0), 1, 100, 400)
		o.MaxCommittedSizePerReady = pick(d, l("applyq"), uint64(0), 1, 60, 250, inf)
		if o.MaxCommittedSizePerReady == 0 && o.MaxSizePerMsg == 0 && !p.AllowZeroApplyQuota {
			o.MaxCommittedSizePerReady = 1
		}
	} else {
		o.MaxSizePerMsg = pick(d, l("msgsz"), inf, inf, 256, 1024)
		o.MaxInflightMsgs = pick(d, l("infl"), 256, 8, 4)
		_ = pick(d, l("inflb"), 0, 0) // keep the number of draws equal in both branches
		o.MaxUncommittedEntriesSize = pick(d, l("uncom"), uint64(0), 0, 1000)
		o.MaxCommittedSizePerReady = pick(d, l("applyq"), uint64(0), inf, 300)
	}
	return o
}

// CaseConfig configures one generated case.
type CaseConfig struct {
	Profile  *Profile
	MaxSteps int
	On       []string
	Owned    []string
	// Liveness: run the fault-free suffix and the C15 oracle after the
	// random prefix.
	Liveness bool
	// Exclude known findings by construction (signatures).
	Exclude map[string]bool
	// RecordOut records every observable output of every node (C19).
	RecordOut bool
	// Inject, if set, is called before random action number i (0-based) and
	// once more with i = -1 after the last one (fault injection, C05).
	Inject func(s *Sim, i int)
}

// CaseResult is the outcome of one case.
type CaseResult struct {
	Sim       *Sim
	Violation *Violation
	Aborted   bool
	Excluded  bool
}

// RunCase generates and runs one case. It never calls into testing; the
// caller decides what to do with the result.
func RunCase(d Drawer, cfg CaseConfig) (res CaseResult) {
	if cfg.Liveness && !cfg.Profile.UniformTicks {
		p2 := *cfg.Profile
		p2.UniformTicks = true
		cfg.Profile = &p2
	}
	w := DrawWorld(d, cfg.Profile)
	mon := NewMonitors(cfg.On, cfg.Owned)
	var s *Sim
	defer func() {
		res.Sim = s
		if r := recover(); r != nil {
			switch v := r.(type) {
			case *Violation:
				res.Violation = v
			case endCase:
				if v.reason == "excluded_known_finding" {
					res.Excluded = true
				} else {
					res.Aborted = true
				}
			default:
				// a panic outside the guarded calls: if it originates in raft
				// code it is a C14 matter, otherwise a harness bug.
				stack := string(debug.Stack())
				if _, isRaft := r.(RaftPanic); isRaft || panicInRaft(stack) {
					pe := PanicEvent{Msg: fmt.Sprint(r), Stack: stack, Step: s.Step, What: "unguarded call"}
					s.Panics = append(s.Panics, pe)
					s.tracef("PANIC (unguarded): %s", pe.Msg)
					props := append([]string{"C14"}, panicProps(pe.Msg)...)
					if s.Stats.has("snap.installed") {
						switch panicClass(pe.Msg) {
						case "slice_out_of_bound", "storage_unavailable", "unexpected_log_error", "storage_append_gap", "unapplied_entries_error":
							// the log cannot be read any more on a node group in
							// which a snapshot was installed: not "exactly the
							// snapshot as the new log base"
							props = append(props, "C09")
						}
					}
					for _, p := range props {
						if mon.Owned[p] {
							res.Violation = &Violation{Prop: p, Monitor: "no_panic", Sig: "c14.panic:" + panicClass(pe.Msg), Msg: "raft panicked: " + pe.Msg, Step: s.Step}
							s.tracef("%s", res.Violation.Error())
							return
						}
					}
					res.Aborted = true
					return
				}
				panic(r)
			}
		}
	}()
	s = NewSim(d, w, mon)
	s.Exclude = cfg.Exclude
	s.OutOn = cfg.RecordOut
	s.NoIDReuse = cfg.Liveness
	s.Boot()
	// prelude (drawn, shrinks to "none"): most interesting states need an
	// elected leader and some committed entries to start from
	if d.Int(0, 9, "prelude") >= 3 {
		s.ElectCleanly()
		if d.Int(0, 1, "preburst") == 1 {
			s.CommitBurst(cfg.Profile, d.Int(1, 5, "burstn"))
		}
	}
	steps := d.Int(0, cfg.MaxSteps, "steps")
	s.ActionsRun = 0
	for i := 0; i < steps; i++ {
		if cfg.Inject != nil {
			cfg.Inject(s, i)
		}
		s.RandomAction(cfg.Profile)
		s.ActionsRun++
	}
	if cfg.Inject != nil {
		cfg.Inject(s, -1)
	}
	if cfg.Liveness {
		s.LivenessSuffix()
	}
	return res
}

type choice struct {
	w  int
	fn func()
}

// RandomAction draws one enabled action according to the profile's weights.
// actionDrawer serves the draws of one action from a fixed-width record of
// raw values (so that every action occupies the same number of draws in
// rapid's bitstream and whole actions can be deleted or simplified without
// misaligning the rest of the schedule - this is what makes shrinking work);
// only macros that need more values fall back to fresh draws.
type actionDrawer struct {
	raw  [4]int
	pos  int
	base Drawer
}

func (a *actionDrawer) Int(lo, hi int, label string) int {
	if hi <= lo {
		return lo
	}
	if a.pos < len(a.raw) {
		v := a.raw[a.pos]
		a.pos++
		return lo + v%(hi-lo+1)
	}
	return a.base.Int(lo, hi, label)
}

func (s *Sim) RandomAction(p *Profile) {
	base := s.D
	ad := &actionDrawer{base: base}
	for i := range ad.raw {
		ad.raw[i] = base.Int(0, 65535, "a")
	}
	s.D = ad
	defer func() { s.D = base }()
	var d Drawer = ad
	var cs []choice
	add := func(kind string, enabled bool, fn func()) {
		if w := p.W[kind]; enabled && w > 0 {
			cs = append(cs, choice{w, fn})
		}
	}
	up := s.upNodes()
	down := s.downNodes()
	var work []*Node
	for _, n := range up {
		if s.hasWork(n) {
			work = append(work, n)
		}
	}
	deliverable := s.Net.deliverable()
	pickNode := func(ns []*Node, label string) *Node { return ns[d.Int(0, len(ns)-1, label)] }

	add("service", len(work) > 0, func() { s.Service(pickNode(work, "node")) })
	add("step", len(work) > 0, func() { s.fineStep(pickNode(work, "node")) })
	add("deliver", len(deliverable) > 0, func() {
		// near-FIFO bias: half of the time the oldest deliverable
		i := 0
		if d.Int(0, 1, "fifo") == 1 {
			i = d.Int(0, len(deliverable)-1, "flight")
		}
		s.Deliver(deliverable[i], false)
	})
	add("dup", len(deliverable) > 0, func() {
		// snapshots are rare in the pool but their late/duplicate delivery
		// matters: prefer them half of the time
		var snaps []int
		for _, i := range deliverable {
			if s.Net.Pool[i].M.GetType() == pb.MsgSnap {
				snaps = append(snaps, i)
			}
		}
		if len(snaps) > 0 && d.Int(0, 1, "prefersnap") == 1 {
			s.Deliver(snaps[d.Int(0, len(snaps)-1, "flight")], true)
			return
		}
		s.Deliver(deliverable[d.Int(0, len(deliverable)-1, "flight")], true)
	})
	var recent []*Flight
	for _, f := range s.Net.Recent {
		if n := s.Nodes[f.To]; n != nil && n.Up && !s.Net.blocked(f.From, f.To) {
			recent = append(recent, f)
		}
	}
	add("duprecent", len(recent) > 0, func() { s.Redeliver(recent[d.Int(0, len(recent)-1, "recent")]) })
	var asyncUp []*Node
	for _, n := range up {
		if n.Opts.Async {
			asyncUp = append(asyncUp, n)
		}
	}
	add("slowdisk", len(asyncUp) > 0, func() {
		n := pickNode(asyncUp, "node")
		which := d.Int(0, 3, "which")
		if n.SlowAppend || n.SlowApply || n.SlowAck {
			// recover (more likely than stalling further)
			n.SlowAppend, n.SlowApply, n.SlowAck = false, false, false
			s.begin("DiskRecovers(%d)", n.ID)
			return
		}
		if which == 3 {
			n.SlowAck = true
			s.begin("AppendAcksDelayed(%d)", n.ID)
			s.Stats.inc("async.acks_delayed")
			return
		}
		n.SlowAppend = which != 1
		n.SlowApply = which != 0
		s.begin("DiskStalls(%d append=%v apply=%v)", n.ID, n.SlowAppend, n.SlowApply)
		s.Stats.inc("async.stalled")
	})
	add("burst", len(deliverable) > 0, func() { s.Burst(s.Nodes[s.Net.Pool[deliverable[d.Int(0, len(deliverable)-1, "flight")]].To]) })
	var held []*Flight
	for _, f := range s.Net.Pool {
		if f.Held {
			held = append(held, f)
		}
	}
	add("hold", len(deliverable) > 0, func() {
		f := s.Net.Pool[deliverable[d.Int(0, len(deliverable)-1, "flight")]]
		s.begin("Hold(#%d %s)", f.ID, shortMsg(f.M))
		f.Held = true
		s.Stats.inc("net.hold")
	})
	add("release", len(held) > 0, func() {
		f := held[d.Int(0, len(held)-1, "held")]
		s.begin("Release(#%d %s)", f.ID, shortMsg(f.M))
		f.Held = false
	})
	add("snaprace", len(up) >= 2, func() { s.SnapshotRace(p) })
	add("snapthenapp", len(up) >= 2, func() { s.SnapThenAppend(p) })
	add("leavexfer", len(up) >= 3, func() { s.LeaveDuringTransfer(p) })
	add("diverge", len(up) >= 3, func() { s.Diverge(p) })
	add("comeback", s.comebackFeasible(), func() { s.Comeback(p) })
	add("crashrecampaign", len(up) >= 3, func() { s.CrashRecampaign(p) })
	add("lagcompact", len(up) >= 2, func() { s.LagAndCompact(p) })
	add("stallelect", len(asyncUp) > 0 && len(up) >= 2, func() { s.StallThroughElection(p, asyncUp[d.Int(0, len(asyncUp)-1, "node")]) })
	add("proposemixed", len(up) > 0, func() { s.proposeMixed(s.proposerNode(up), p) })
	add("drop", len(s.Net.Pool) > 0, func() { s.Drop(d.Int(0, len(s.Net.Pool)-1, "flight")) })
	add("tick", len(up) > 0, func() { s.Tick(pickNode(up, "node")) })
	add("tickall", len(up) > 0, func() {
		s.begin("TickAll")
		for _, n := range s.upNodes() {
			s.tick(n)
		}
	})
	add("tickcampaign", len(up) > 0, func() { s.TickUntilCampaign(pickNode(up, "node")) })
	add("stabilize", len(up) > 0, func() { s.Stabilize(d.Int(1, 6, "rounds")) })
	add("propose", len(up) > 0, func() { s.Propose(s.proposerNode(up), s.drawSize(p)) })
	add("proposebatch", len(up) > 0, func() {
		k := d.Int(2, 4, "batch")
		sizes := make([]int, k)
		for i := range sizes {
			sizes[i] = s.drawSize(p)
		}
		s.ProposeBatch(s.proposerNode(up), sizes)
	})
	add("proposeconf", len(up) > 0, func() { s.randomConfChange(s.proposerNode(up)) })
	add("transfer", len(up) > 0, func() {
		s.TransferLeader(pickNode(up, "node"), s.IDs[d.Int(0, len(s.IDs)-1, "to")])
	})
	add("readindex", len(up) > 0, func() {
		n := pickNode(up, "node")
		dup := ""
		if s.readSeq > 0 && d.Int(0, 19, "dupctx") == 0 {
			// duplicate only a context this node issued itself
			for k := s.readSeq; k >= 1; k-- {
				if r := s.Mon.reads[fmt.Sprintf("r%d", k)]; r != nil && r.Node == n.ID {
					dup = r.Ctx
					break
				}
			}
		}
		s.ReadIndex(n, dup)
	})
	add("campaign", len(up) > 0, func() { s.Campaign(pickNode(up, "node")) })
	add("forget", len(up) > 0, func() { s.ForgetLeader(pickNode(up, "node")) })
	add("unreachable", len(up) > 0, func() {
		s.ReportUnreachable(pickNode(up, "node"), s.IDs[d.Int(0, len(s.IDs)-1, "peer")])
	})
	add("reportsnap", len(s.Net.Owed) > 0, func() {
		s.ReportSnap(d.Int(0, len(s.Net.Owed)-1, "owed"), d.Int(0, 4, "fail") == 0)
	})
	var compactable []*Node
	for _, n := range up {
		if lo, hi := s.compactRange(n); hi > lo {
			compactable = append(compactable, n)
		}
	}
	add("compact", len(compactable) > 0, func() {
		n := pickNode(compactable, "node")
		lo, hi := s.compactRange(n)
		i := hi
		if d.Int(0, 2, "snapat") == 0 {
			i = uint64(d.Int(int(lo+1), int(hi), "snapindex"))
		}
		j := i
		if d.Int(0, 2, "compactat") == 0 {
			j = uint64(d.Int(int(n.Disk.first()-1), int(i), "compactindex"))
		}
		s.Compact(n, i, j)
	})
	// Storage.Snapshot() may fail with ErrSnapshotTemporarilyUnavailable
	// (documented in the Storage interface): the next call at this node does.
	add("snapunavail", len(up) > 0, func() {
		n := pickNode(up, "node")
		s.begin("SnapshotTemporarilyUnavailable(%d)", n.ID)
		n.Disk.TempUnavailable = true
	})
	add("crash", len(up) > 0, func() {
		s.Crash(pickNode(up, "node"), d.Int(0, 1, "partial") == 1, d.Int(0, 1, "loseunsynced") == 1)
	})
	add("restart", len(down) > 0, func() {
		n := pickNode(down, "node")
		lo, hi := s.restartRange(n)
		a := hi
		if d.Int(0, 2, "appliedlow") == 0 {
			a = uint64(d.Int(int(lo), int(hi), "applied"))
		}
		s.Restart(n, a)
	})
	add("isolate", len(s.IDs) > 1, func() { s.Isolate(s.Nodes[s.IDs[d.Int(0, len(s.IDs)-1, "node")]]) })
	add("blocklink", len(s.IDs) > 1, func() {
		a := s.IDs[d.Int(0, len(s.IDs)-1, "a")]
		b := s.IDs[d.Int(0, len(s.IDs)-1, "b")]
		if a != b {
			s.BlockLink(a, b)
		} else {
			s.begin("Noop")
		}
	})
	add("heal", len(s.Net.Blocked) > 0, func() { s.Heal() })

	if len(cs) == 0 {
		s.begin("Noop")
		return
	}
	total := 0
	for _, c := range cs {
		total += c.w
	}
	x := d.Int(0, total-1, "action")
	for _, c := range cs {
		if x < c.w {
			c.fn()
			return
		}
		x -= c.w
	}
}

func (s *Sim) drawSize(p *Profile) int {
	switch s.D.Int(0, 5, "sizeclass") {
	case 0:
		return 1
	case 1, 2:
		return s.D.Int(6, 16, "size")
	case 3:
		return s.D.Int(30, 60, "size")
	default:
		return s.D.Int(1, p.MaxPayload, "size")
	}
}

// proposerNode prefers the current leader (most proposals should be accepted).
func (s *Sim) proposerNode(up []*Node) *Node {
	if s.D.Int(0, 2, "atleader") > 0 {
		for _, n := range up {
			if n.RN.BasicStatus().RaftState == raft.StateLeader {
				return n
			}
		}
	}
	return up[s.D.Int(0, len(up)-1, "node")]
}

// FineStep is fineStep for scripted scenarios.
func (s *Sim) FineStep(n *Node) {
	if s.hasWork(n) {
		s.fineStep(n)
	}
}

// fineStep performs one sub-step of n's pending work.
func (s *Sim) fineStep(n *Node) {
	d := s.D
	if n.Opts.Async {
		var opts []func()
		if n.RN.HasReady() {
			opts = append(opts, func() { s.TakeReady(n) })
		}
		if len(n.AppendQ) > 0 {
			opts = append(opts, func() { s.AppendStep(n, d.Int(0, 1, "sync") == 1) })
		}
		if len(n.ApplyQ) > 0 {
			opts = append(opts, func() { s.ApplyStep(n) })
		}
		for k := 0; k < 2; k++ {
			if len(n.SelfQ[k]) > 0 && !(k == 0 && n.SlowAck) {
				k := k
				opts = append(opts, func() { s.SelfStep(n, k) })
			}
		}
		if len(opts) == 0 {
			return
		}
		opts[d.Int(0, len(opts)-1, "substep")]()
		return
	}
	switch {
	case n.Phase == PhaseIdle:
		s.TakeReady(n)
	case n.Phase == PhaseTaken:
		s.PersistEntries(n)
	case n.Phase == PhaseEntries:
		s.PersistHS(n, d.Int(0, 1, "sync") == 1)
	default:
		var opts []func()
		if !n.Sent {
			opts = append(opts, func() { s.SendMsgs(n) })
		}
		if !n.Applied {
			opts = append(opts, func() { s.ApplyCommitted(n) })
		}
		if len(opts) == 0 {
			s.Advance(n)
			return
		}
		opts[d.Int(0, len(opts)-1, "substep")]()
	}
}

// TickUntilCampaign ticks n until it starts campaigning (bounded).
func (s *Sim) TickUntilCampaign(n *Node) {
	s.begin("TickUntilCampaign(%d)", n.ID)
	for i := 0; i < 2*n.Opts.ElectionTick+1 && n.Up; i++ {
		before := n.RN.BasicStatus()
		s.tick(n)
		if !n.Up {
			return
		}
		after := n.RN.BasicStatus()
		if after.RaftState != before.RaftState || after.GetTerm() != before.GetTerm() {
			return
		}
	}
}

// randomConfChange proposes a conf change that is mostly valid with respect
// to the harness's model of the committed configuration.
// confChangeTokenFree implements the "reliable mechanism above raft that
// serializes configuration changes" which DisableConfChangeValidation
// demands: a conf change is proposed only at the leader, and only while no
// conf-change entry is unapplied in any live log and none is in flight.
func (s *Sim) confChangeTokenFree(n *Node) bool {
	if n.RN.BasicStatus().RaftState != raft.StateLeader {
		return false
	}
	for _, x := range s.upNodes() {
		st := x.RN.VerifState()
		if st.LastIndex > st.Applied {
			ents, err := x.RN.VerifLogEntries(max(st.Applied+1, st.FirstIndex), st.LastIndex+1)
			if err != nil {
				return false
			}
			for _, e := range ents {
				if isConfEntry(e) {
					return false
				}
			}
		}
		if x.SM.Applied < st.Applied || len(x.ApplyQ) > 0 {
			return false
		}
	}
	for _, x := range s.downNodes() {
		if x.Disk.last() > x.SM.Applied {
			return false // its durable log may hold an unapplied conf change
		}
	}
	for _, f := range s.Net.Pool {
		if f.M.GetType() == pb.MsgProp {
			for _, e := range f.M.GetEntries() {
				if isConfEntry(e) {
					return false
				}
			}
		}
	}
	return true
}

func (s *Sim) randomConfChange(n *Node) {
	if n.Opts.DisableConfChangeValidation && !s.confChangeTokenFree(n) {
		s.begin("Noop (conf-change token busy)")
		s.Stats.inc("conf.token_busy")
		return
	}
	cc := s.drawConfChange()
	s.ProposeConf(n, cc, s.D.Int(0, 1, "v1") == 1)
}

func (s *Sim) drawConfChange() *pb.ConfChangeV2 {
	d := s.D
	conf := s.Reg.latestConf()
	var members, nonMembers, voters, learners []uint64
	var retired map[uint64]bool
	if s.NoIDReuse {
		retired = s.Reg.retiredBefore(^uint64(0))
	}
	for _, id := range s.IDs {
		if retired[id] {
			// an id that was removed from the group never joins again
			continue
		}
		switch {
		case conf.Voters[id]:
			voters = append(voters, id)
			members = append(members, id)
		case conf.Learners[id] || conf.LearnersNext[id]:
			learners = append(learners, id)
			members = append(members, id)
		case conf.Outgoing[id]:
			members = append(members, id)
		default:
			nonMembers = append(nonMembers, id)
		}
	}
	single := func(t pb.ConfChangeType, id uint64) *pb.ConfChangeSingle {
		return &pb.ConfChangeSingle{Type: t.Enum(), NodeId: new(id)}
	}
	// id 0 is the documented "ignore this single change" marker (etcd zeroes
	// the NodeId of changes it decides not to apply)
	anyID := func() uint64 {
		k := d.Int(0, len(s.IDs)+1, "ccid")
		if k >= len(s.IDs) {
			return 0
		}
		return s.IDs[k]
	}
	var one func() *pb.ConfChangeSingle
	one = func() *pb.ConfChangeSingle {
		switch d.Int(0, 7, "cckind") {
		case 0, 1:
			if len(nonMembers) > 0 {
				return single(pb.ConfChangeAddNode, nonMembers[d.Int(0, len(nonMembers)-1, "ccnode")])
			}
		case 2:
			if len(nonMembers) > 0 {
				return single(pb.ConfChangeAddLearnerNode, nonMembers[d.Int(0, len(nonMembers)-1, "ccnode")])
			}
		case 3:
			if len(voters) > 1 {
				return single(pb.ConfChangeRemoveNode, voters[d.Int(0, len(voters)-1, "ccnode")])
			}
		case 4:
			if len(learners) > 0 {
				return single(pb.ConfChangeAddNode, learners[d.Int(0, len(learners)-1, "ccnode")]) // promote
			}
		case 5:
			if len(voters) > 1 {
				return single(pb.ConfChangeAddLearnerNode, voters[d.Int(0, len(voters)-1, "ccnode")]) // demote
			}
		case 6:
			if len(learners) > 0 {
				return single(pb.ConfChangeRemoveNode, learners[d.Int(0, len(learners)-1, "ccnode")])
			}
		}
		// arbitrary (possibly redundant or invalid) change
		return single(pick(d, "cctype", pb.ConfChangeAddNode, pb.ConfChangeRemoveNode, pb.ConfChangeAddLearnerNode, pb.ConfChangeUpdateNode), anyID())
	}
	cc := &pb.ConfChangeV2{}
	shape := d.Int(0, 9, "ccshape")
	switch {
	case conf.Joint() && shape < 6:
		// leave joint (explicitly)
	case shape < 5:
		cc.Changes = []*pb.ConfChangeSingle{one()}
	case shape < 7:
		cc.Changes = []*pb.ConfChangeSingle{one()}
		cc.Transition = pick(d, "cctr", pb.ConfChangeTransitionJointImplicit, pb.ConfChangeTransitionJointExplicit).Enum()
	case shape < 9:
		k := d.Int(2, 3, "ccn")
		// a third of the multi-change proposals shrink or grow the voter set
		// by several nodes at once (joint configs with several outgoing-only
		// or incoming-only voters)
		switch bulk := d.Int(0, 5, "ccbulk"); {
		case bulk == 0 && len(voters) > k:
			off := d.Int(0, len(voters)-1, "ccoff")
			for i := 0; i < k; i++ {
				id := voters[(off+i)%len(voters)]
				cc.Changes = append(cc.Changes, single(pick(d, "ccrm", pb.ConfChangeRemoveNode, pb.ConfChangeRemoveNode, pb.ConfChangeAddLearnerNode), id))
			}
		case bulk == 1 && len(nonMembers) >= 2:
			off := d.Int(0, len(nonMembers)-1, "ccoff")
			for i := 0; i < k && i < len(nonMembers); i++ {
				cc.Changes = append(cc.Changes, single(pb.ConfChangeAddNode, nonMembers[(off+i)%len(nonMembers)]))
			}
		default:
			for i := 0; i < k; i++ {
				cc.Changes = append(cc.Changes, one())
			}
			if d.Int(0, 3, "cczero") == 0 {
				// an ignored (zero id) change in front of real ones
				z := single(pick(d, "ccztype", pb.ConfChangeAddNode, pb.ConfChangeRemoveNode, pb.ConfChangeAddLearnerNode, pb.ConfChangeUpdateNode), 0)
				at := d.Int(0, len(cc.Changes)-1, "cczat")
				cc.Changes = append(cc.Changes[:at:at], append([]*pb.ConfChangeSingle{z}, cc.Changes[at:]...)...)
				s.Stats.inc("conf.zero_id_before_real_change")
			}
		}
		cc.Transition = pick(d, "cctr", pb.ConfChangeTransitionAuto, pb.ConfChangeTransitionJointImplicit, pb.ConfChangeTransitionJointExplicit).Enum()
	default:
		// leave-joint while possibly not joint
	}
	return cc
}

// FailureReport renders a violation with the trace for humans.
func FailureReport(res CaseResult) string {
	var sb strings.Builder
	if res.Violation != nil {
		fmt.Fprintf(&sb, "%s\n", res.Violation.Error())
	}
	if res.Sim != nil {
		for _, l := range res.Sim.Trace {
			sb.WriteString(l)
			sb.WriteByte('\n')
		}
		for _, pe := range res.Sim.Panics {
			fmt.Fprintf(&sb, "PANIC node %d in %s: %s\n%s\n", pe.Node, pe.What, pe.Msg, pe.Stack)
		}
	}
	return sb.String()
}

// WriteFailure writes the report to dir/<prop>.trace (best effort).
func WriteFailure(dir, name string, res CaseResult) string {
	if dir == "" {
		return ""
	}
	_ = os.MkdirAll(dir, 0o755)
	p := dir + "/" + name + ".trace"
	_ = os.WriteFile(p, []byte(FailureReport(res)), 0o644)
	return p
}

var _ = refmodel.Quorum

// panicInRaft reports whether the innermost non-runtime frame of a panic
// stack (as printed by debug.Stack in a deferred function) is raft code.
func panicInRaft(stack string) bool {
	lines := strings.Split(stack, "\n")
	seenPanic := false
	for _, l := range lines {
		if strings.HasPrefix(l, "\t") {
			continue
		}
		if strings.HasPrefix(l, "panic(") {
			seenPanic = true
			continue
		}
		if !seenPanic {
			continue
		}
		if strings.HasPrefix(l, "runtime.") || strings.HasPrefix(l, "runtime/") {
			continue
		}
		return strings.HasPrefix(l, "go.etcd.io/raft/v3")
	}
	return false
}

// Diverge is a macro that manufactures a divergent uncommitted tail: the
// current leader is isolated and keeps accepting proposals, another node is
// elected by the rest and commits different entries at the same indexes
// (optionally compacting them away), then the partition heals.
func (s *Sim) Diverge(p *Profile) {
	d := s.D
	var leader *Node
	for _, n := range s.upNodes() {
		if n.RN.BasicStatus().RaftState == raft.StateLeader {
			leader = n
			break
		}
	}
	s.begin("Diverge")
	if leader == nil {
		return
	}
	s.Stats.inc("macro.diverge")
	for _, id := range s.IDs {
		if id != leader.ID {
			s.Net.Blocked[[2]uint64{id, leader.ID}] = true
			s.Net.Blocked[[2]uint64{leader.ID, id}] = true
		}
	}
	k := d.Int(1, 4, "oldprops")
	// the deposed leader's append thread may lag: its divergent tail is then
	// still unstable when the new leader's appends or snapshot arrive
	stallOld := d.Int(0, 2, "stallold") == 0 && leader.Opts.Async
	if stallOld {
		// either the whole append thread lags (then the node cannot answer
		// appends either: its responses travel with that thread), or only its
		// acknowledgements to raft do (entries are written but stay in the
		// unstable log)
		if d.Int(0, 2, "ackonly") > 0 {
			leader.SlowAck = true
		} else {
			leader.SlowAppend = true
		}
		s.Stats.inc("async.stalled")
		k += d.Int(0, 3, "moreold")
		defer func() { leader.SlowAppend, leader.SlowAck = false, false }()
	}
	for i := 0; i < k && leader.Up; i++ {
		s.Propose(leader, s.drawSize(p))
	}
	if leader.Up && d.Int(0, 2, "svc") > 0 {
		s.Service(leader)
	}
	// elect somebody else among the rest
	var rest []*Node
	for _, n := range s.upNodes() {
		if n.ID != leader.ID {
			rest = append(rest, n)
		}
	}
	if len(rest) == 0 {
		return
	}
	cand := rest[d.Int(0, len(rest)-1, "cand")]
	for i := 0; i < 3 && cand.Up && cand.RN.BasicStatus().RaftState != raft.StateLeader; i++ {
		s.TickUntilCampaign(cand)
		s.Stabilize(6)
	}
	if !cand.Up || cand.RN.BasicStatus().RaftState != raft.StateLeader {
		return
	}
	s.Stats.inc("macro.diverge_new_leader")
	k = d.Int(1, 5, "newprops")
	for i := 0; i < k && cand.Up; i++ {
		s.Propose(cand, s.drawSize(p))
	}
	s.Stabilize(6)
	if cand.Up && d.Int(0, 1, "compact") == 1 {
		if lo, hi := s.compactRange(cand); hi > lo {
			s.Compact(cand, hi, hi)
		}
	}
	if d.Int(0, 3, "heal") > 0 {
		if d.Int(0, 1, "losequeued") == 1 {
			// what was sent towards the old leader across the partition is
			// lost, not merely late: the new leader has to find the point of
			// divergence by probing (and may need a snapshot by then)
			for i := len(s.Net.Pool) - 1; i >= 0; i-- {
				if s.Net.Pool[i].To == leader.ID {
					s.Net.remove(i)
				}
			}
		}
		s.Heal()
		if stallOld {
			// the new leader reaches the old one while its tail is unstable
			for i := 0; i < 2*cand.Opts.HeartbeatTick && cand.Up; i++ {
				s.tick(cand)
			}
			s.stabilize(5)
			s.Stats.inc("macro.diverge_unstable_tail")
		}
	}
}

// proposeMixed steps one MsgProp whose entries mix normal payloads and conf
// changes (raft.stepLeader handles conf changes at any position of a batch).
// Every entry is tracked as its own proposal.
func (s *Sim) proposeMixed(n *Node, p *Profile) {
	d := s.D
	if n.Opts.DisableConfChangeValidation && !s.confChangeTokenFree(n) {
		s.begin("Noop (conf-change token busy)")
		return
	}
	k := d.Int(2, 4, "mixed")
	ccAt := d.Int(0, k-1, "ccpos")
	var ents []*pb.Entry
	var props []*Proposal
	for i := 0; i < k; i++ {
		s.propSeq++
		if i == ccAt {
			c2 := proto.Clone(s.drawConfChange()).(*pb.ConfChangeV2)
			c2.Context = []byte(fmt.Sprintf("c%d|", s.propSeq))
			typ, data, err := pb.MarshalConfChange(c2)
			if err != nil {
				s.harnessBug("marshal: %v", err)
			}
			props = append(props, &Proposal{Seq: s.propSeq, Node: n.ID, Inc: n.Inc, Step: s.Step + 1, Conf: true, Datas: [][]byte{data}, Types: []pb.EntryType{typ}})
			ents = append(ents, &pb.Entry{Type: typ.Enum(), Data: append([]byte(nil), data...)})
			continue
		}
		dta := s.payload(s.propSeq, 0, s.drawSize(p))
		props = append(props, &Proposal{Seq: s.propSeq, Node: n.ID, Inc: n.Inc, Step: s.Step + 1, Datas: [][]byte{dta}, Types: []pb.EntryType{pb.EntryNormal}})
		ents = append(ents, &pb.Entry{Data: append([]byte(nil), dta...)})
	}
	s.begin("ProposeMixed(%d p%d..p%d conf at %d)", n.ID, props[0].Seq, props[len(props)-1].Seq, ccAt)
	s.Stats.inc("prop.mixed_batch")
	for _, pr := range props {
		s.Mon.beforePropose(n, pr)
	}
	wasLeader := n.RN.BasicStatus().RaftState == raft.StateLeader
	m := &pb.Message{Type: pb.MsgProp.Enum(), From: new(n.ID), Entries: ents}
	var err error
	// the C20 per-proposal checks assume one proposal per call; pass none
	s.touch(n, &Cause{Kind: "propose"}, func() { err = n.RN.Step(m) })
	for _, pr := range props {
		pr.Err = err
		if isDropped(err) && wasLeader {
			pr.LeaderDeliveries--
		}
	}
	s.Mon.afterPropose(n, props[0])
	s.tracef("    -> %v", err)
}

// Burst models a node whose disk is slow: several messages addressed to n are
// delivered (some twice, back to back) while its storage threads do not run.
// An async node takes a Ready after every message (pipelining storage work in
// its queues); a sync node steps them all before its next Ready.
func (s *Sim) Burst(n *Node) {
	d := s.D
	s.begin("Burst(%d)", n.ID)
	s.Stats.inc("macro.burst")
	k := d.Int(2, 6, "burst")
	for j := 0; j < k && n.Up; j++ {
		idx := -1
		for _, i := range s.Net.deliverable() {
			if s.Net.Pool[i].To == n.ID {
				idx = i
				break
			}
		}
		if idx < 0 {
			break
		}
		f := s.Net.remove(idx)
		s.tracef("    burst deliver #%d %s", f.ID, shortMsg(f.M))
		s.deliver(f)
		if n.Up && n.Opts.Async && n.RN.HasReady() {
			s.takeReadyAsync(n)
		}
		if n.Up && d.Int(0, 2, "again") == 0 {
			s.Stats.inc("net.dup")
			s.tracef("    burst redeliver #%d", f.ID)
			s.deliver(f)
			if n.Up && n.Opts.Async && n.RN.HasReady() {
				s.takeReadyAsync(n)
			}
		}
	}
	if n.Up && len(n.AppendQ) >= 2 {
		s.Stats.inc("async.append_queue_ge2")
	}
}

func (s *Sim) leaderNode() *Node {
	for _, n := range s.upNodes() {
		if n.RN.BasicStatus().RaftState == raft.StateLeader {
			return n
		}
	}
	return nil
}

// ElectCleanly lets one node time out and win an election undisturbed.
func (s *Sim) ElectCleanly() {
	up := s.upNodes()
	if len(up) == 0 {
		return
	}
	n := up[s.D.Int(0, len(up)-1, "electnode")]
	s.begin("ElectCleanly(%d)", n.ID)
	s.stabilize(3)
	for i := 0; i < 3 && n.Up && s.leaderNode() == nil; i++ {
		for j := 0; j < 2*n.Opts.ElectionTick+1 && n.Up; j++ {
			before := n.RN.BasicStatus()
			s.tick(n)
			if !n.Up {
				return
			}
			if after := n.RN.BasicStatus(); after.RaftState != before.RaftState || after.GetTerm() != before.GetTerm() {
				break
			}
		}
		s.stabilize(8)
	}
}

// CommitBurst proposes k entries at the leader and lets them commit.
func (s *Sim) CommitBurst(p *Profile, k int) {
	l := s.leaderNode()
	s.begin("CommitBurst(%d)", k)
	if l == nil {
		return
	}
	for i := 0; i < k && l.Up; i++ {
		s.Propose(l, s.drawSize(p))
	}
	s.stabilize(6)
}

// LagAndCompact isolates a follower, commits entries without it, compacts the
// leader's log past them and heals: the follower then needs a snapshot.
func (s *Sim) LagAndCompact(p *Profile) {
	d := s.D
	l := s.leaderNode()
	s.begin("LagAndCompact")
	if l == nil {
		return
	}
	var others []*Node
	for _, n := range s.upNodes() {
		if n.ID != l.ID {
			others = append(others, n)
		}
	}
	if len(others) == 0 {
		return
	}
	f := others[d.Int(0, len(others)-1, "laggard")]
	s.Stats.inc("macro.lagcompact")
	for _, id := range s.IDs {
		if id != f.ID {
			s.Net.Blocked[[2]uint64{id, f.ID}] = true
			s.Net.Blocked[[2]uint64{f.ID, id}] = true
		}
	}
	k := d.Int(1, 4, "lagprops")
	for i := 0; i < k && l.Up; i++ {
		s.Propose(l, s.drawSize(p))
	}
	s.stabilize(6)
	if l.Up {
		if lo, hi := s.compactRange(l); hi > lo {
			s.Compact(l, hi, hi)
		}
	}
	s.Heal()
	// let the leader notice the laggard (heartbeat round) but leave the rest
	// to the random schedule
	if l.Up {
		for i := 0; i < l.Opts.HeartbeatTick && l.Up; i++ {
			s.tick(l)
		}
		if l.Up {
			s.service(l)
		}
	}
}

// StallThroughElection: an async node's append thread is stalled (slow disk)
// while leadership changes; the node keeps receiving and handing out Readys,
// so its storage acknowledgements arrive after its term has moved on.
func (s *Sim) StallThroughElection(p *Profile, f *Node) {
	d := s.D
	s.begin("StallThroughElection(%d)", f.ID)
	s.Stats.inc("macro.stallelect")
	if d.Int(0, 2, "selfcandidate") == 0 && len(s.upNodes()) >= 2 {
		s.stalledNodeTakesOver(p, f)
		return
	}
	f.SlowAppend = true
	if d.Int(0, 1, "lagfirst") == 1 {
		if l := s.leaderNode(); l != nil && l.ID != f.ID {
			k := d.Int(1, 3, "props")
			for i := 0; i < k && l.Up; i++ {
				s.Propose(l, s.drawSize(p))
			}
			s.stabilize(4)
		}
	}
	if l := s.leaderNode(); l != nil {
		var cands []uint64
		for _, id := range s.IDs {
			if id != l.ID && s.Nodes[id].Up {
				cands = append(cands, id)
			}
		}
		if len(cands) > 0 {
			s.TransferLeader(l, cands[d.Int(0, len(cands)-1, "to")])
		}
	} else {
		up := s.upNodes()
		s.TickUntilCampaign(up[d.Int(0, len(up)-1, "cand")])
	}
	s.stabilize(6)
	if f.Up {
		f.SlowAppend = false
	}
}

// DefaultNodeOpts is a plain configuration for scripted scenarios.
func DefaultNodeOpts() NodeOpts {
	return NodeOpts{ElectionTick: 4, HeartbeatTick: 1, Timeout: 4, MaxSizePerMsg: math.MaxUint64, MaxCommittedSizePerReady: math.MaxUint64,
		MaxInflightMsgs: 16, SnapMode: SnapFresh}
}

// RunScript builds a world and runs a scripted schedule with the monitors of
// the given owned properties; it returns the first violation (or nil).
func RunScript(w WorldOpts, owned []string, exclude map[string]bool, script func(s *Sim)) (res CaseResult) {
	mon := NewMonitors(nil, owned)
	s := NewSim(FixedDrawer{}, w, mon)
	s.Exclude = exclude
	defer func() {
		res.Sim = s
		if r := recover(); r != nil {
			switch v := r.(type) {
			case *Violation:
				res.Violation = v
			case endCase:
				res.Excluded = v.reason == "excluded_known_finding"
				res.Aborted = !res.Excluded
			default:
				// a panic raised by raft itself in a scripted history is a
				// failure of the check the script belongs to
				stack := string(debug.Stack())
				if _, isRaft := r.(RaftPanic); (isRaft || panicInRaft(stack)) && len(owned) > 0 {
					msg := fmt.Sprint(r)
					res.Violation = &Violation{Prop: owned[0], Monitor: "no_panic", Sig: "c14.panic:" + panicClass(msg), Msg: "raft panicked: " + msg, Step: s.Step}
					s.tracef("%s", res.Violation.Error())
					return
				}
				panic(r)
			}
		}
	}()
	s.Boot()
	script(s)
	return res
}

// Leader returns the current leader node (nil if none).
func (s *Sim) Leader() *Node { return s.leaderNode() }

// SnapshotRace: a snapshot to a lagging follower gets stuck in its stream, the
// transport reports it failed, the leader compacts further and sends a newer
// snapshot which arrives first; the old one arrives afterwards, possibly
// before the newer one has been applied.
func (s *Sim) SnapshotRace(p *Profile) {
	d := s.D
	s.begin("SnapshotRace")
	l := s.leaderNode()
	if l == nil {
		return
	}
	var others []*Node
	for _, n := range s.upNodes() {
		if n.ID != l.ID {
			others = append(others, n)
		}
	}
	if len(others) == 0 {
		return
	}
	f := others[d.Int(0, len(others)-1, "laggard")]
	s.LagAndCompact(p)
	// find (and hold) the snapshot for the laggard, if one was produced
	s.stabilizeHolding(f.ID, 4)
	var first *Flight
	for _, fl := range s.Net.Pool {
		if fl.M.GetType() == pb.MsgSnap && fl.Held {
			first = fl
		}
	}
	if first == nil {
		return
	}
	s.Stats.inc("macro.snaprace_first_held")
	for k := len(s.Net.Owed) - 1; k >= 0; k-- {
		if o := s.Net.Owed[k]; o.To == first.To && o.Leader == first.From {
			s.ReportSnap(k, true)
			break
		}
	}
	if l = s.leaderNode(); l == nil {
		return
	}
	k := d.Int(1, 3, "moreprops")
	for i := 0; i < k && l.Up; i++ {
		s.Propose(l, s.drawSize(p))
	}
	s.stabilize(4)
	if l.Up {
		if lo, hi := s.compactRange(l); hi > lo {
			s.Compact(l, hi, hi)
		}
		for i := 0; i < 2*l.Opts.HeartbeatTick && l.Up; i++ {
			s.tick(l)
		}
	}
	target := s.Nodes[first.To]
	if d.Int(0, 1, "stalltarget") == 1 && target.Up && target.Opts.Async {
		target.SlowAppend = true
	}
	s.stabilize(4)
	if d.Int(0, 2, "releasenow") > 0 {
		first.Held = false
		s.Stats.inc("macro.snaprace_released")
		for i, fl := range s.Net.Pool {
			if fl == first && target.Up && !s.Net.blocked(fl.From, fl.To) {
				s.Deliver(i, false)
				break
			}
		}
	}
}

// stabilizeHolding is stabilize, but MsgSnap flights addressed to `to` are
// held back instead of delivered.
func (s *Sim) stabilizeHolding(to uint64, rounds int) {
	for r := 0; r < rounds; r++ {
		for _, fl := range s.Net.Pool {
			if fl.M.GetType() == pb.MsgSnap && fl.To == to {
				fl.Held = true
			}
		}
		if !s.stabilize(1) {
			break
		}
	}
	for _, fl := range s.Net.Pool {
		if fl.M.GetType() == pb.MsgSnap && fl.To == to {
			fl.Held = true
		}
	}
}
