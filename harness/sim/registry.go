package sim

import (
	pb "go.etcd.io/raft/v3/raftpb"
	"verif/harness/refmodel"
)

// entRec is what the harness knows about the entry with a given (index,term).
type entRec struct {
	Type      pb.EntryType
	DataHash  uint64
	DataLen   int
	PrevTerm  uint64
	PrevKnown bool
	Step      int
	// Tag is the proposal the entry carries (seq,k), or (0,0).
	Seq, K int
}

// comRec is the committed entry at an index.
type comRec struct {
	Term            uint64
	Type            pb.EntryType
	DataHash        uint64
	FirstCommitTerm uint64
	By              uint64 // node first observed with it committed
	Step            int
}

type confPoint struct {
	Index uint64
	Conf  refmodel.Conf
}

// Registry is harness-global, append-only knowledge built from observations.
type Registry struct {
	// alsoCommitted: entries reported committed by some node at an index
	// where a different entry had been reported committed first.
	alsoCommitted map[uint64][]*comRec
	s             *Sim

	entryAt   map[[2]uint64]*entRec
	committed map[uint64]*comRec
	// committedEnts keeps a copy of committed entries (for folding configs).
	committedEnts map[uint64]*pb.Entry

	// Base is the index of the bootstrap state (chain and conf known there).
	Base uint64
	// chain[i] for Base <= i <= chainUpTo.
	chain     map[uint64]uint64
	chainUpTo uint64
	// confAt: change points of the folded reference configuration, valid up
	// to chainUpTo.
	confAt []confPoint

	maxCommitted    uint64 // largest index known committed
	maxLeaderCommit uint64
	// maxExposedCommit: largest commit index handed out in any Ready.
	maxExposedCommit uint64
}

func newRegistry(s *Sim) *Registry {
	return &Registry{s: s, entryAt: map[[2]uint64]*entRec{}, committed: map[uint64]*comRec{},
		committedEnts: map[uint64]*pb.Entry{}, chain: map[uint64]uint64{}}
}

func (r *Registry) init(w WorldOpts, initConf refmodel.Conf) {
	if w.BootPeers {
		r.Base = 0
		r.confAt = []confPoint{{0, refmodel.NewConf()}}
		r.maxLeaderCommit = uint64(len(w.Voters))
	} else {
		r.Base = w.BootIndex
		r.confAt = []confPoint{{w.BootIndex, initConf.Clone()}}
		r.maxLeaderCommit = w.BootIndex
	}
	r.chain[r.Base] = bootHash
	r.chainUpTo = r.Base
	r.maxCommitted = r.Base
	r.maxExposedCommit = r.Base
}

// confAtIndex returns the folded reference configuration after index i, if
// the committed prefix is known up to i.
func (r *Registry) confAtIndex(i uint64) (refmodel.Conf, bool) {
	if i < r.Base || i > r.chainUpTo {
		return refmodel.Conf{}, false
	}
	c := r.confAt[0].Conf
	for _, p := range r.confAt {
		if p.Index <= i {
			c = p.Conf
		} else {
			break
		}
	}
	return c, true
}

func (r *Registry) latestConf() refmodel.Conf { return r.confAt[len(r.confAt)-1].Conf }

func (r *Registry) chainAt(i uint64) (uint64, bool) {
	h, ok := r.chain[i]
	return h, ok
}

// extendChain advances chain/confAt over contiguous known committed entries.
func (r *Registry) extendChain() {
	for {
		e, ok := r.committedEnts[r.chainUpTo+1]
		if !ok {
			return
		}
		r.chainUpTo++
		r.chain[r.chainUpTo] = chainHash(r.chain[r.chainUpTo-1], e)
		if isConfEntry(e) {
			if _, v2, err := decodeCC(e); err == nil {
				cur := r.latestConf()
				if next, merr := cur.Apply(v2); merr == nil && !r.s.reusesRetiredID(cur, next, r.chainUpTo) {
					if len(cur.Voters) == 1 {
						for v := range cur.Voters {
							if !next.Voters[v] {
								// the sole voter is replaced in one (joint) change
								r.s.Stats.inc("conf.one_voter_shrink")
							}
						}
					}
					if len(cur.Voters) == 2 {
						for v := range cur.Voters {
							if !next.Voters[v] {
								// README: a voter removed/demoted out of a
								// two-voter set is the documented liveness
								// exception (C15).
								r.s.Stats.inc("conf.two_voter_shrink")
							}
						}
					}
					r.confAt = append(r.confAt, confPoint{r.chainUpTo, next})
				}
			}
		}
	}
}

// observeCommitted registers/compares the committed entry at e.Index.
// Returns the existing record if it disagrees with e (nil otherwise).
func (r *Registry) observeCommitted(e *pb.Entry, observerTerm, by uint64) *comRec {
	idx := e.GetIndex()
	rec, ok := r.committed[idx]
	if ok {
		if rec.Term != e.GetTerm() || rec.Type != e.GetType() || rec.DataHash != dataHash(e.GetData()) {
			// a second, different entry reported committed at this index:
			// remembered for leader completeness (C04 speaks of every entry
			// that *any* node has committed)
			dup := false
			for _, o := range r.alsoCommitted[idx] {
				if o.Term == e.GetTerm() && o.Type == e.GetType() && o.DataHash == dataHash(e.GetData()) {
					dup = true
				}
			}
			if !dup {
				if r.alsoCommitted == nil {
					r.alsoCommitted = map[uint64][]*comRec{}
				}
				r.alsoCommitted[idx] = append(r.alsoCommitted[idx], &comRec{Term: e.GetTerm(), Type: e.GetType(), DataHash: dataHash(e.GetData()),
					FirstCommitTerm: observerTerm, By: by, Step: r.s.Step})
			}
			return rec
		}
		return nil
	}
	r.committed[idx] = &comRec{Term: e.GetTerm(), Type: e.GetType(), DataHash: dataHash(e.GetData()),
		FirstCommitTerm: observerTerm, By: by, Step: r.s.Step}
	r.committedEnts[idx] = cloneEnt(e)
	if idx > r.maxCommitted {
		r.maxCommitted = idx
	}
	r.extendChain()
	return nil
}

// retiredBefore returns the ids that were members of some committed
// configuration at an index below i and are not members of the committed
// configuration in force just before i: ids that were removed from the
// group. doc.go: "An ID represents a unique node in a cluster for all time. A
// given ID MUST be used only once even if the old node has been removed."
func (r *Registry) retiredBefore(i uint64) map[uint64]bool {
	ever := map[uint64]bool{}
	var cur refmodel.Conf
	have := false
	for _, p := range r.confAt {
		if p.Index >= i && have {
			break
		}
		for _, id := range p.Conf.Members() {
			ever[id] = true
		}
		cur, have = p.Conf, true
	}
	out := map[uint64]bool{}
	for id := range ever {
		if !have || !cur.IsMember(id) {
			out[id] = true
		}
	}
	return out
}

// reusesRetiredID: with NoIDReuse (the liveness check) the application
// refuses a committed change at index idx that brings back an id which was
// removed from the group before.
func (s *Sim) reusesRetiredID(cur, next refmodel.Conf, idx uint64) bool {
	if !s.NoIDReuse {
		return false
	}
	var ret map[uint64]bool
	for _, id := range next.Members() {
		if cur.IsMember(id) {
			continue
		}
		if ret == nil {
			ret = s.Reg.retiredBefore(idx)
		}
		if ret[id] {
			s.Stats.inc("conf.rejected_id_reuse")
			return true
		}
	}
	return false
}
