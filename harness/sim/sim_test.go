package sim

import (
	"os"
	"strings"
	"testing"

	"pgregory.net/rapid"
)

func TestDev(t *testing.T) {
	all := []string{"C01", "C02", "C03", "C04", "C05", "C06", "C07", "C08", "C09", "C10", "C11", "C14", "C16", "C17", "C20"}
	if ps := os.Getenv("PROPS"); ps != "" {
		all = strings.Split(ps, ",")
	}
	col := NewCollector("dev", "any", func(c *CaseStats) bool { return c.has("leader.elected") })
	defer func() {
		t.Logf("evals=%d nontrivial=%d distinct=%d aborted=%d", col.Evaluations, col.NonTrivial, len(col.Digests), col.Aborted)
		keys := []string{"leader.elected", "commit.leader_advance", "apply.entries", "crash", "restart", "snap.accepted", "conf.applied", "panic", "read.answered", "log.tail_overwritten"}
		if e := os.Getenv("STATS"); e != "" {
			keys = strings.Split(e, ",")
		}
		for _, k := range keys {
			t.Logf("  %-28s total=%d cases=%d", k, col.Classes[k], col.CasesWith[k])
		}
	}()
	prof := os.Getenv("PROFILE")
	if prof == "" {
		prof = "base"
	}
	rapid.Check(t, func(rt *rapid.T) {
		res := RunCase(RapidDrawer{rt}, CaseConfig{Profile: Profiles[prof], MaxSteps: 300, Owned: all})
		col.Add(res.Sim, res.Aborted, res.Excluded)
		if res.Violation != nil {
			WriteFailure("/tmp/verif-dev", "dev", res)
			rt.Fatalf("%s", res.Violation.Error())
		}
	})
}
