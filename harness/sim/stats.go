package sim

import (
	"encoding/json"
	"hash/fnv"
	"os"
	"sort"
)

// CaseStats are the event-class counters of one case.
type CaseStats struct {
	C      map[string]int
	digest uint64
}

func newCaseStats() *CaseStats { return &CaseStats{C: map[string]int{}, digest: 14695981039346656037} }

func (c *CaseStats) inc(k string)        { c.C[k]++ }
func (c *CaseStats) add(k string, n int) { c.C[k] += n }
func (c *CaseStats) has(k string) bool   { return c.C[k] > 0 }

func (c *CaseStats) mix(s string) {
	h := fnv.New64a()
	var b [8]byte
	for i := 0; i < 8; i++ {
		b[i] = byte(c.digest >> (8 * i))
	}
	h.Write(b[:])
	h.Write([]byte(s))
	c.digest = h.Sum64()
}

// Rule decides whether a case is non-trivial for a property.
type Rule func(c *CaseStats) bool

// Collector aggregates cases of one test process (one shard).
type Collector struct {
	Prop        string
	RuleText    string
	rule        Rule
	Evaluations int
	NonTrivial  int
	Digests     map[uint64]bool // digests of non-trivial cases
	Classes     map[string]int  // total event counts
	CasesWith   map[string]int  // number of cases in which the class occurred
	Samples     []string
	MaxSamples  int
	Excluded    int
	Aborted     int
	Extra       map[string]any
}

func NewCollector(prop, ruleText string, rule Rule) *Collector {
	return &Collector{Prop: prop, RuleText: ruleText, rule: rule, Digests: map[uint64]bool{},
		Classes: map[string]int{}, CasesWith: map[string]int{}, MaxSamples: 3, Extra: map[string]any{}}
}

func (col *Collector) Add(s *Sim, aborted, excluded bool) {
	col.Evaluations++
	if aborted {
		col.Aborted++
	}
	if excluded {
		col.Excluded++
	}
	for k, v := range s.Stats.C {
		col.Classes[k] += v
		col.CasesWith[k]++
	}
	if col.rule != nil && col.rule(s.Stats) {
		col.NonTrivial++
		col.Digests[s.Stats.digest] = true
		if len(col.Samples) < col.MaxSamples {
			col.Samples = append(col.Samples, sampleOf(s))
		}
	}
}

func sampleOf(s *Sim) string {
	out := ""
	n := 0
	for _, l := range s.Trace {
		if len(l) > 5 && l[5] == ' ' {
			continue // indented detail lines
		}
		out += l + " ; "
		n++
		if n >= 40 {
			out += "…"
			break
		}
	}
	return out
}

// ShardReport is what one shard writes for the driver to merge.
type ShardReport struct {
	Prop        string         `json:"prop"`
	Rule        string         `json:"rule"`
	Evaluations int            `json:"evaluations"`
	NonTrivial  int            `json:"nontrivial"`
	Digests     []uint64       `json:"digests"`
	Classes     map[string]int `json:"classes"`
	CasesWith   map[string]int `json:"cases_with"`
	Samples     []string       `json:"samples"`
	Excluded    int            `json:"excluded_known_finding"`
	Aborted     int            `json:"aborted_by_panic"`
	Extra       map[string]any `json:"extra,omitempty"`
}

func (col *Collector) Report() ShardReport {
	r := ShardReport{Prop: col.Prop, Rule: col.RuleText, Evaluations: col.Evaluations, NonTrivial: col.NonTrivial,
		Classes: col.Classes, CasesWith: col.CasesWith, Samples: col.Samples, Excluded: col.Excluded, Aborted: col.Aborted, Extra: col.Extra}
	for d := range col.Digests {
		r.Digests = append(r.Digests, d)
	}
	sort.Slice(r.Digests, func(i, j int) bool { return r.Digests[i] < r.Digests[j] })
	return r
}

// WriteIfRequested writes the shard report to $VERIF_STATS_OUT.
func (col *Collector) WriteIfRequested() {
	p := os.Getenv("VERIF_STATS_OUT")
	if p == "" {
		return
	}
	b, _ := json.Marshal(col.Report())
	_ = os.WriteFile(p, b, 0o644)
}
