package sim

import (
	"bytes"
	"fmt"
	"sort"
	"strconv"
	"strings"

	"google.golang.org/protobuf/proto"

	"go.etcd.io/raft/v3"
	pb "go.etcd.io/raft/v3/raftpb"
	"go.etcd.io/raft/v3/tracker"
	"verif/harness/refmodel"
)

// Monitors holds the oracles. On[p] enables the monitors of property p;
// Owned[p] makes a violation of p fail the case.
type Monitors struct {
	s     *Sim
	On    map[string]bool
	Owned map[string]bool

	// C02
	leaderOf map[uint64][2]uint64          // term -> (id, inc)
	votedFor map[[2]uint64]uint64          // (voter, term) -> candidate
	grants   map[[3]uint64]map[uint64]bool // (cand, inc, term) -> voters
	// C17
	pregrants map[[3]uint64]map[uint64]bool

	// C11
	reads      map[string]*readRec
	flightByID map[int]*Flight
	allSafe    bool

	// C20
	props     map[int]*Proposal
	propByTag map[string]*Proposal
	carried   map[[2]int]int // (seq,k) -> number of distinct (index,term) entries
	emptyNorm map[uint64]int // term -> count of empty normal entries
	neutral   map[uint64]int // term -> neutralized conf deliveries (upper bound)
	confDatas map[string]*Proposal

	appliedBy map[uint64]uint64 // index -> first node that applied it
	// propEntry: proposal seq -> (index,term) entries carrying its first payload
	propEntry map[int][][2]uint64
}

type readRec struct {
	Ctx   string
	Node  uint64
	G     uint64
	Step  int
	Count int
	// recv[(leader,inc)] = first step at which that leader received it
	recv     map[[2]uint64]int
	Answered int
}

type hsTriple struct{ term, vote, commit uint64 }

// nodeMon is per-node monitor scratch.
type nodeMon struct {
	// log cache from the last scan (shared pointers)
	logCache []*pb.Entry
	logBase  uint64 // index of logCache[0]
	// cache as of before the current touch
	prevCache []*pb.Entry
	prevBase  uint64
	// lastRegCommit: commit index up to which entries were registered
	lastRegCommit uint64

	// C07
	exp hsTriple // exposed within incarnation
	// baseFloor: index of the newest snapshot this incarnation installed; the
	// log base (first index - 1) never falls back below it (C09: the
	// snapshot is the node's new log base)
	baseFloor uint64
	termFloor uint64

	// C08
	next            uint64
	snapOutstanding uint64

	// C11 (leader side): per peer, max creation step of a heartbeat whose
	// response this incarnation stepped.
	hbAck map[uint64]int

	// C16
	outstanding map[uint64][]sentApp // follower -> entry-bearing MsgApps of the current epoch
	// snapPending[f]: a MsgSnap was created for f and neither a
	// ReportSnapshot nor a successful MsgAppResp from f was seen since
	snapPending map[uint64]uint64
	leadTerm    uint64
	uwSum       uint64 // uncommitted-size window: sum of accepted payload bytes
	uwFirst     uint64
	uwApplied   uint64
	uwTerm      uint64

	// C17
	heardTerm, heardLead uint64
	heardTick            int
	heardValid           bool
	peerHeard            map[uint64]int // leader side: own tick at which a message from peer was last stepped
	leaderSince          int            // own tick when leadership (term) began
	leaderSinceStep      int
	ledTerm              uint64 // highest term this incarnation acted as leader in
	leaderTerm           uint64
	lastTransferTick     int
	lastConfTick         int
}

type sentApp struct {
	last  uint64
	bytes uint64
}

func NewMonitors(on []string, owned []string) *Monitors {
	m := &Monitors{On: map[string]bool{}, Owned: map[string]bool{}}
	for _, p := range on {
		m.On[p] = true
	}
	for _, p := range owned {
		m.On[p] = true
		m.Owned[p] = true
	}
	return m
}

func (m *Monitors) init(s *Sim) {
	m.s = s
	m.leaderOf = map[uint64][2]uint64{}
	m.votedFor = map[[2]uint64]uint64{}
	m.grants = map[[3]uint64]map[uint64]bool{}
	m.pregrants = map[[3]uint64]map[uint64]bool{}
	m.reads = map[string]*readRec{}
	m.flightByID = map[int]*Flight{}
	m.props = map[int]*Proposal{}
	m.propByTag = map[string]*Proposal{}
	m.carried = map[[2]int]int{}
	m.emptyNorm = map[uint64]int{}
	m.neutral = map[uint64]int{}
	m.confDatas = map[string]*Proposal{}
	m.appliedBy = map[uint64]uint64{}
	m.propEntry = map[int][][2]uint64{}
	m.allSafe = true
	for _, o := range s.W.Nodes {
		if o.LeaseRead {
			m.allSafe = false
		}
	}
}

func (m *Monitors) viol(props []string, monitor, sig, format string, a ...any) {
	msg := fmt.Sprintf(format, a...)
	for _, p := range sortedKeys(m.s.Precursors) {
		sig += "/after:" + p
	}
	if m.s.Exclude[sig] {
		m.s.tracef("excluded known finding %s: %s", sig, msg)
		panic(endCase{"excluded_known_finding"})
	}
	// record for every property; fail on the first owned one
	var owned string
	for _, p := range props {
		if !m.On[p] {
			continue
		}
		v := &Violation{Prop: p, Monitor: monitor, Sig: sig, Msg: msg, Step: m.s.Step}
		m.s.Violations = append(m.s.Violations, v)
		m.s.tracef("%s", v.Error())
		if owned == "" && m.Owned[p] {
			owned = p
		}
	}
	if owned != "" && m.s.FailFast {
		m.s.tracef("STATE %s", m.s.dumpNodes())
		panic(&Violation{Prop: owned, Monitor: monitor, Sig: sig, Msg: msg, Step: m.s.Step})
	}
}

func cfgJoint(st *raft.VerifState) bool { return len(st.VotersOutgoing) > 0 }

func isMember(st *raft.VerifState, id uint64) bool {
	return containsU64(st.Voters, id) || containsU64(st.VotersOutgoing, id) ||
		containsU64(st.Learners, id) || containsU64(st.LearnersNext, id)
}

func confOfState(st *raft.VerifState) refmodel.Conf {
	c := refmodel.NewConf()
	for _, v := range st.Voters {
		c.Voters[v] = true
	}
	for _, v := range st.VotersOutgoing {
		c.Outgoing[v] = true
	}
	for _, v := range st.Learners {
		c.Learners[v] = true
	}
	for _, v := range st.LearnersNext {
		c.LearnersNext[v] = true
	}
	c.AutoLeave = st.AutoLeave
	return c
}

func confFromCS(cs *pb.ConfState) refmodel.Conf { return refmodel.FromConfState(cs) }

func leU64(b []byte) uint64 {
	var v uint64
	for i := 0; i < 8 && i < len(b); i++ {
		v |= uint64(b[i]) << (8 * i)
	}
	return v
}

func (n *Node) progressOf(st *raft.VerifState, id uint64) *raft.VerifProgress {
	for i := range st.Progress {
		if st.Progress[i].ID == id {
			return &st.Progress[i]
		}
	}
	return nil
}

// cachedTerm returns the term at idx from the last log scan of n.
func (n *Node) cachedTerm(idx uint64) (uint64, bool) {
	c := &n.mon
	if idx < c.logBase || idx >= c.logBase+uint64(len(c.logCache)) {
		return 0, false
	}
	return c.logCache[idx-c.logBase].GetTerm(), true
}

func (n *Node) cachedEntry(idx uint64) *pb.Entry {
	c := &n.mon
	if idx < c.logBase || idx >= c.logBase+uint64(len(c.logCache)) {
		return nil
	}
	return c.logCache[idx-c.logBase]
}

// ------------------------------------------------------------------ lifecycle

func (m *Monitors) onStart(n *Node, st *raft.VerifState) {
	s := m.s
	n.mon = nodeMon{hbAck: map[uint64]int{}, outstanding: map[uint64][]sentApp{}, peerHeard: map[uint64]int{}, snapPending: map[uint64]uint64{}}
	n.mon.lastRegCommit = st.FirstIndex - 1
	n.mon.exp = hsTriple{st.Term, st.Vote, st.Commit}
	n.mon.termFloor = st.Term
	n.mon.next = st.Applied + 1
	d := n.Disk
	if m.On["C07"] && d.HS != nil {
		if st.Term != d.HS.GetTerm() || st.Vote != d.HS.GetVote() || st.Commit != d.HS.GetCommit() {
			m.viol([]string{"C07"}, "restart_hardstate", "c07.restart_mismatch",
				"node %d restarted with (term %d vote %d commit %d) but durable hard state is (%d %d %d)",
				n.ID, st.Term, st.Vote, st.Commit, d.HS.GetTerm(), d.HS.GetVote(), d.HS.GetCommit())
		}
	}
	if m.On["C06"] && st.Commit > d.last() && !(n.BootMember && d.last() == 0) {
		m.viol([]string{"C06"}, "commit_le_durable_last", "c06.commit_gt_last_after_restart",
			"node %d restarted with commit %d > durable last index %d", n.ID, st.Commit, d.last())
	}
	if m.On["C10"] {
		if !confOfState(st).Equal(n.SM.Conf) && !(n.BootMember && n.SM.Applied < uint64(len(s.W.Voters))) {
			m.viol([]string{"C10"}, "restart_config", "c10.restart_config",
				"node %d restarted at applied %d with config %s, expected %s", n.ID, n.SM.Applied, confOfState(st), n.SM.Conf)
		}
	}
	m.scanLog(n, st, st)
	m.registerCommits(n, st)
	m.stateChecks(n, st, st, &Cause{Kind: "start"})
}

// onCrash runs right before n's volatile state is discarded (after the
// un-synced part of its storage was lost, if so drawn).
func (m *Monitors) onCrash(n *Node) {
	// A node that acted as leader of term T must have T in its durable hard
	// state (fixed defect: with AsyncStorageWrites a candidate used to become
	// leader on the votes of others before its own term and vote were
	// written; after a crash it could lead the same term again).
	if n.mon.ledTerm > 0 && n.Disk.HS.GetTerm() < n.mon.ledTerm {
		m.viol([]string{"C02", "C05"}, "leader_term_durable", "c02.leader_term_not_durable",
			"node %d led term %d but crashes with durable term %d: after the restart it may lead that term again", n.ID, n.mon.ledTerm, n.Disk.HS.GetTerm())
	}
}

// knownPrecursor is called when the precondition of a known finding arises.
// If the finding is excluded by construction the case ends here; otherwise
// later violations carry the finding in their signature.
func (m *Monitors) knownPrecursor(sig, msg string) {
	m.s.tracef("precursor of known finding %s: %s", sig, msg)
	if m.s.Exclude[sig] {
		panic(endCase{"excluded_known_finding"})
	}
	if m.s.Precursors == nil {
		m.s.Precursors = map[string]bool{}
	}
	m.s.Precursors[sig] = true
}

func (m *Monitors) onCompact(n *Node) {
	// storage changed underneath raft; nothing to assert here, the next
	// touch rescans.
}

func (m *Monitors) onPanic(n *Node, pe PanicEvent) {
	sig := "c14.panic:" + panicClass(pe.Msg)
	m.s.Stats.inc("panic")
	props := []string{"C14"}
	props = append(props, panicProps(pe.Msg)...)
	m.viol(props, "no_panic", sig, "node %d panicked in %s: %s", pe.Node, pe.What, pe.Msg)
	if !m.Owned["C14"] {
		panic(endCase{"aborted_by_panic"})
	}
}

// panicClass maps a panic message to a stable class name.
func panicClass(msg string) string {
	cls := []struct{ sub, name string }{
		{"conflict with committed entry", "conflict_with_committed"},
		{"is out of range [committed(", "append_below_committed"},
		{"tocommit(", "tocommit_out_of_range"},
		{"applied(", "applied_out_of_range"},
		{"applying entry size", "applying_size_not_positive"},
		{"applying(", "applying_out_of_range"},
		{"cannot add into a Full inflights", "inflights_full"},
		{"state.commit", "loadstate_commit_out_of_range"},
		{"two accepted Ready structs", "double_ready"},
		{"out of bound", "slice_out_of_bound"},
		{"invalid transition", "invalid_transition"},
		{"should not be self-addressed", "self_addressed"},
		{"term should be set", "missing_term"},
		{"term should not be set", "unexpected_term"},
		{"missing log entry", "storage_append_gap"},
		{"when getting unapplied entries", "unapplied_entries_error"},
		{"unexpected error when getting", "unexpected_log_error"},
		{"need non-empty snapshot", "empty_snapshot"},
		{"is unavailable from storage", "storage_unavailable"},
		{"index out of range", "go_index_out_of_range"},
		{"slice bounds out of range", "go_slice_bounds"},
		{"nil pointer", "go_nil_deref"},
		{"removed all voters", "conf_removed_all_voters"},
		{"joint", "conf_joint_error"},
		{"sending append in unhandled state", "append_in_snapshot_state"},
		{"unexpected state", "progress_unexpected_state"},
		{"empty entry was dropped", "empty_entry_dropped"},
		{"error scanning unapplied entries", "scan_unapplied"},
	}
	for _, c := range cls {
		if strings.Contains(msg, c.sub) {
			return c.name
		}
	}
	return "other"
}

// panicProps maps assertion sites to the property they guard (DESIGN §5 C14).
func panicProps(msg string) []string {
	switch panicClass(msg) {
	case "conflict_with_committed", "append_below_committed":
		return []string{"C01", "C04"}
	case "tocommit_out_of_range":
		return []string{"C06"}
	case "applied_out_of_range", "applying_size_not_positive", "applying_out_of_range":
		return []string{"C08"}
	case "unapplied_entries_error":
		// assembling the next batch of committed entries failed
		return []string{"C08", "C03", "C18"}
	case "scan_unapplied":
		// the campaign guard's scan for unapplied conf changes failed
		return []string{"C10"}
	case "inflights_full", "append_in_snapshot_state":
		return []string{"C16"}
	case "loadstate_commit_out_of_range":
		return []string{"C05", "C07"}
	case "storage_append_gap", "slice_out_of_bound", "storage_unavailable", "unexpected_log_error":
		return []string{"C03", "C18"}
	case "conf_removed_all_voters", "conf_joint_error":
		return []string{"C10", "C13"}
	}
	return nil
}

// ------------------------------------------------------------------ touch

func (m *Monitors) afterTouch(n *Node, pre, post *raft.VerifState, c *Cause) {
	s := m.s
	// message creation bookkeeping (parents, creation step)
	parent := 0
	if c.Flight != nil {
		parent = c.Flight.ID
	}
	var newMsgs, newAfter []*pb.Message
	if c.Kind != "ready" {
		if len(post.Msgs) > len(pre.Msgs) {
			newMsgs = post.Msgs[len(pre.Msgs):]
		}
		if len(post.MsgsAfterAppend) > len(pre.MsgsAfterAppend) {
			newAfter = post.MsgsAfterAppend[len(pre.MsgsAfterAppend):]
		}
		s.Net.noteCreated(newMsgs, parent)
		s.Net.noteCreated(newAfter, parent)
		if m.On["C05"] {
			for _, am := range newAfter {
				if am.GetType() == pb.MsgAppResp && !am.GetReject() && am.GetIndex() > 0 {
					if t, err := n.RN.VerifLogTerm(am.GetIndex()); err == nil {
						mm := s.Net.meta[am]
						mm.ackTerm, mm.ackKnown = t, true
						s.Net.meta[am] = mm
					}
				}
			}
		}
	}
	if post.Commit > s.Reg.maxCommitted {
		// (registered below)
	}
	m.scanLog(n, pre, post)
	m.registerCommits(n, post)
	m.stateChecks(n, pre, post, c)
	m.msgCreationChecks(n, pre, post, c, newMsgs, newAfter)
}

// scanLog walks the logical log of n (C03, C04 oracle 2, C10 oracle 2/5,
// C20) and refreshes the cache.
func (m *Monitors) scanLog(n *Node, pre, post *raft.VerifState) {
	s := m.s
	first, last := post.FirstIndex, post.LastIndex
	var ents []*pb.Entry
	if last >= first {
		var err error
		ents, err = n.RN.VerifLogEntries(first, last+1)
		if err != nil {
			// racing compaction cannot happen (single-threaded)
			m.viol([]string{"C03", "C18"}, "log_readable", "c03.log_unreadable",
				"node %d: logical log [%d,%d] unreadable: %v", n.ID, first, last, err)
			return
		}
		if uint64(len(ents)) != last+1-first {
			m.viol([]string{"C03", "C18"}, "log_readable", "c03.log_short",
				"node %d: logical log [%d,%d] returned %d entries", n.ID, first, last, len(ents))
			return
		}
	}
	old := n.mon
	prevTerm := post.BaseTerm
	prevKnown := first > 1 || post.BaseTerm != 0 || first == 1
	if first == 1 {
		prevTerm = 0
	}
	var prevEnt *pb.Entry
	for i, e := range ents {
		idx := first + uint64(i)
		if m.On["C03"] {
			if e.GetIndex() != idx {
				m.viol([]string{"C03"}, "contiguous", "c03.not_contiguous",
					"node %d: log position %d holds entry with index %d", n.ID, idx, e.GetIndex())
			}
			if prevKnown && e.GetTerm() < prevTerm {
				m.viol([]string{"C03"}, "terms_monotone", "c03.term_decreases",
					"node %d: term decreases at index %d: %d after %d", n.ID, idx, e.GetTerm(), prevTerm)
			}
		}
		oldE := (*pb.Entry)(nil)
		if idx >= old.logBase && idx < old.logBase+uint64(len(old.logCache)) {
			oldE = old.logCache[idx-old.logBase]
		}
		if oldE != e {
			m.observeEntry(n, post, idx, e, prevTerm, prevKnown, prevEnt)
			// C04 oracle 2: a committed entry the node held must not be replaced.
			if oldE != nil && oldE.GetTerm() != e.GetTerm() {
				// A committed entry the node held is replaced. That is a
				// violation if the node knew it was committed, or if the
				// replacing entry comes from a leader elected after the commit
				// (such a leader must hold the entry). A stale leader of an
				// earlier term may still overwrite the copy of a slow follower
				// that never learnt of the commit: that copy was not needed
				// for the commit's quorum (standard Raft).
				if cr := s.Reg.committed[idx]; cr != nil && cr.Term == oldE.GetTerm() && (idx <= pre.Commit || e.GetTerm() >= cr.FirstCommitTerm) {
					m.viol([]string{"C04", "C01"}, "no_overwrite_committed", "c04.committed_overwritten",
						"node %d (commit %d): committed entry (%d,%d) (first committed in term %d) replaced by term %d", n.ID, pre.Commit, idx, oldE.GetTerm(), cr.FirstCommitTerm, e.GetTerm())
				} else if cr != nil && cr.Term == oldE.GetTerm() {
					s.Stats.inc("log.unknown_committed_copy_overwritten_by_stale_leader")
				}
			}
		}
		prevTerm, prevKnown, prevEnt = e.GetTerm(), true, e
	}
	// truncation of a committed entry (not covered by a new base)
	if m.On["C04"] || m.On["C01"] {
		oldLast := old.logBase + uint64(len(old.logCache))
		for idx := max(last+1, old.logBase); idx < oldLast; idx++ {
			if idx < first {
				continue
			}
			oldE := old.logCache[idx-old.logBase]
			if cr := s.Reg.committed[idx]; cr != nil && cr.Term == oldE.GetTerm() && (idx <= pre.Commit || post.LastTerm >= cr.FirstCommitTerm) {
				m.viol([]string{"C04", "C01"}, "no_truncate_committed", "c04.committed_truncated",
					"node %d (commit %d): committed entry (%d,%d) truncated (log now ends at (%d,%d))", n.ID, pre.Commit, idx, oldE.GetTerm(), last, post.LastTerm)
			}
		}
	}
	if len(old.logCache) > 0 && last >= first && first <= old.logBase+uint64(len(old.logCache))-1 {
		// divergence statistics: tail overwritten
		for idx := max(first, old.logBase); idx <= min(last, old.logBase+uint64(len(old.logCache))-1); idx++ {
			if old.logCache[idx-old.logBase].GetTerm() != ents[idx-first].GetTerm() {
				s.Stats.inc("log.tail_overwritten")
				break
			}
		}
	}
	n.mon.prevCache, n.mon.prevBase = old.logCache, old.logBase
	n.mon.logCache = ents
	n.mon.logBase = first
}

func (c *nodeMon) preCacheTerm(idx uint64) (uint64, bool) {
	if idx < c.prevBase || idx >= c.prevBase+uint64(len(c.prevCache)) {
		return 0, false
	}
	return c.prevCache[idx-c.prevBase].GetTerm(), true
}

// parseTag extracts (seq,k) from a proposal payload "p<seq>.<k>|...".
func parseTag(data []byte) (seq, k int, ok bool) {
	if len(data) < 4 || data[0] != 'p' {
		return 0, 0, false
	}
	bar := bytes.IndexByte(data, '|')
	if bar < 0 {
		return 0, 0, false
	}
	dot := bytes.IndexByte(data[:bar], '.')
	if dot < 0 {
		return 0, 0, false
	}
	a, err1 := strconv.Atoi(string(data[1:dot]))
	b, err2 := strconv.Atoi(string(data[dot+1 : bar]))
	if err1 != nil || err2 != nil {
		return 0, 0, false
	}
	return a, b, true
}

// observeEntry registers a (new to this node) entry in entryAt and runs the
// per-entry oracles.
func (m *Monitors) observeEntry(n *Node, post *raft.VerifState, idx uint64, e *pb.Entry, prevTerm uint64, prevKnown bool, prevEnt *pb.Entry) {
	s := m.s
	key := [2]uint64{idx, e.GetTerm()}
	rec := s.Reg.entryAt[key]
	dh := dataHash(e.GetData())
	if rec == nil {
		rec = &entRec{Type: e.GetType(), DataHash: dh, DataLen: len(e.GetData()), PrevTerm: prevTerm, PrevKnown: prevKnown, Step: s.Step}
		s.Reg.entryAt[key] = rec
		m.newEntry(n, post, idx, e, rec)
	} else {
		if m.On["C03"] && (rec.Type != e.GetType() || rec.DataHash != dh) {
			m.viol([]string{"C03"}, "same_index_term_same_entry", "c03.content_differs",
				"node %d: entry (%d,%d) differs from the entry another log holds at the same index and term", n.ID, idx, e.GetTerm())
		}
		if prevKnown && rec.PrevKnown && rec.PrevTerm != prevTerm && m.On["C03"] {
			m.viol([]string{"C03"}, "same_index_term_same_prefix", "c03.prefix_differs",
				"node %d: entry (%d,%d) is preceded by term %d here but by term %d in another log", n.ID, idx, e.GetTerm(), prevTerm, rec.PrevTerm)
		}
		if prevKnown && !rec.PrevKnown {
			rec.PrevTerm, rec.PrevKnown = prevTerm, true
		}
	}
	// C20 batch adjacency: entry k>0 of a batch directly follows entry k-1.
	if m.On["C20"] && rec.Seq != 0 && rec.K > 0 && prevEnt != nil {
		ok := false
		if prevEnt.GetTerm() == e.GetTerm() {
			if sq, k, tagged := parseTag(prevEnt.GetData()); tagged && sq == rec.Seq && k == rec.K-1 {
				ok = true
			}
		}
		if !ok {
			m.viol([]string{"C20"}, "batch_order", "c20.batch_split",
				"node %d: entry (%d,%d) carries p%d.%d but is not directly preceded by p%d.%d of the same term",
				n.ID, idx, e.GetTerm(), rec.Seq, rec.K, rec.Seq, rec.K-1)
		}
	}
}

// newEntry runs when an (index,term) is seen for the first time anywhere.
func (m *Monitors) newEntry(n *Node, post *raft.VerifState, idx uint64, e *pb.Entry, rec *entRec) {
	s := m.s
	data := e.GetData()
	ownTermLeader := post.State == raft.StateLeader && post.Term == e.GetTerm()
	// entries written by RawNode.Bootstrap are not proposals
	bootEntry := s.W.BootPeers && idx <= uint64(len(s.W.Voters)) && e.GetTerm() == 1
	if e.GetType() == pb.EntryNormal && len(data) > 0 {
		if seq, k, ok := parseTag(data); ok && k == 0 {
			m.propEntry[seq] = append(m.propEntry[seq], [2]uint64{idx, e.GetTerm()})
		}
	}
	if m.On["C20"] && !bootEntry {
		switch {
		case e.GetType() == pb.EntryNormal && len(data) > 0:
			seq, k, ok := parseTag(data)
			var p *Proposal
			if ok {
				p = m.props[seq]
			}
			if p == nil || k >= len(p.Datas) || !bytes.Equal(p.Datas[k], data) || p.Types[k] != pb.EntryNormal {
				m.viol([]string{"C20"}, "payload_is_proposed", "c20.invented_payload",
					"node %d: entry (%d,%d) carries %d bytes that no Propose call supplied", n.ID, idx, e.GetTerm(), len(data))
			} else {
				rec.Seq, rec.K = seq, k
				m.carried[[2]int{seq, k}]++
				cnt := m.carried[[2]int{seq, k}]
				if cnt > p.LeaderDeliveries {
					m.viol([]string{"C20"}, "at_most_once_per_delivery", "c20.duplicated",
						"proposal p%d.%d appears in %d distinct entries but was delivered to a leader %d times (entry (%d,%d) on node %d)",
						seq, k, cnt, p.LeaderDeliveries, idx, e.GetTerm(), n.ID)
				}
				if cnt > 1 {
					s.Stats.inc("prop.appended_twice")
				}
			}
		case e.GetType() == pb.EntryNormal:
			m.emptyNorm[e.GetTerm()]++
			if m.emptyNorm[e.GetTerm()] > 1+m.neutral[e.GetTerm()] {
				m.viol([]string{"C20"}, "empty_entries_accounted", "c20.extra_empty_entry",
					"term %d has %d empty normal entries but only 1 leadership no-op + %d neutralized conf proposals are accounted for",
					e.GetTerm(), m.emptyNorm[e.GetTerm()], m.neutral[e.GetTerm()])
			}
		case len(data) == 0:
			if e.GetType() != pb.EntryConfChangeV2 {
				m.viol([]string{"C20"}, "raft_conf_entries", "c20.invented_conf",
					"entry (%d,%d) is an empty conf change of type %v", idx, e.GetTerm(), e.GetType())
			}
		default:
			p := m.confDatas[string(data)]
			if p == nil || p.Types[0] != e.GetType() {
				m.viol([]string{"C20"}, "payload_is_proposed", "c20.invented_conf",
					"node %d: conf entry (%d,%d) was never proposed", n.ID, idx, e.GetTerm())
			} else {
				m.carried[[2]int{p.Seq, 0}]++
				if m.carried[[2]int{p.Seq, 0}] > p.LeaderDeliveries {
					m.viol([]string{"C20"}, "at_most_once_per_delivery", "c20.duplicated",
						"conf proposal c%d appears in %d entries but was delivered to a leader %d times", p.Seq, m.carried[[2]int{p.Seq, 0}], p.LeaderDeliveries)
				}
			}
		}
	}
	if isConfEntry(e) && ownTermLeader {
		s.Stats.inc("conf.appended")
		if m.On["C10"] && !n.Opts.DisableConfChangeValidation {
			// oracle 2: no other conf change in (applied, idx)
			for j := post.Applied + 1; j < idx; j++ {
				if pe := m.logEntryOf(n, post, j); pe != nil && isConfEntry(pe) {
					m.viol([]string{"C10"}, "one_conf_change_at_a_time", "c10.second_conf_change",
						"leader %d (term %d) appended conf change at %d while conf change at %d is unapplied (applied %d)",
						n.ID, post.Term, idx, j, post.Applied)
					break
				}
			}
		}
		if m.On["C10"] && len(data) == 0 {
			// oracle 5: auto-leave only from a joint auto-leave config
			if !cfgJoint(post) || !post.AutoLeave {
				m.viol([]string{"C10"}, "auto_leave_only_when_joint", "c10.spurious_autoleave",
					"leader %d appended an automatic leave-joint at %d but its config is %s", n.ID, idx, confOfState(post))
			} else {
				s.Stats.inc("conf.autoleave_proposed")
			}
		}
	}
}

// logEntryOf reads entry j of n's current logical log.
func (m *Monitors) logEntryOf(n *Node, post *raft.VerifState, j uint64) *pb.Entry {
	if j < post.FirstIndex || j > post.LastIndex {
		return nil
	}
	es, err := n.RN.VerifLogEntries(j, j+1)
	if err != nil || len(es) != 1 {
		return nil
	}
	return es[0]
}

// registerCommits registers entries up to n's commit index as committed and
// compares them with what other nodes committed (C01/C06 oracle 3).
func (m *Monitors) registerCommits(n *Node, post *raft.VerifState) {
	s := m.s
	c := post.Commit
	from := n.mon.lastRegCommit
	if c <= from {
		return
	}
	for idx := max(from+1, post.FirstIndex); idx <= c && idx <= post.LastIndex; idx++ {
		e := n.cachedEntry(idx)
		if e == nil {
			continue
		}
		if bad := s.Reg.observeCommitted(e, post.Term, n.ID); bad != nil {
			m.viol([]string{"C06", "C01"}, "commit_on_matching_prefix", "c06.committed_prefix_differs",
				"node %d has commit %d and holds (%d,%d) at a committed index where (%d,%d) was committed first (by node %d at step %d)",
				n.ID, c, idx, e.GetTerm(), idx, bad.Term, bad.By, bad.Step)
		}
	}
	n.mon.lastRegCommit = c
}

// stateChecks: role transitions, commit advance, term monotonicity.
func (m *Monitors) stateChecks(n *Node, pre, post *raft.VerifState, c *Cause) {
	s := m.s
	reg := s.Reg
	becameLeader := post.State == raft.StateLeader && (pre.State != raft.StateLeader || pre.Term != post.Term || c.Kind == "start")
	isLeader := post.State == raft.StateLeader
	m.selfVotes(n, pre, c)
	if c.Kind == "deliver" {
		if msg := c.Flight.M; !msg.GetReject() {
			switch msg.GetType() {
			case pb.MsgVoteResp:
				m.addGrant(m.grants, n, msg.GetTerm(), msg.GetFrom())
				if fn := s.Nodes[msg.GetFrom()]; fn != nil && c.Flight.SenderInc != fn.Inc {
					s.Stats.inc("vote.resp_after_sender_restart")
				}
			case pb.MsgPreVoteResp:
				m.addGrant(m.pregrants, n, msg.GetTerm(), msg.GetFrom())
			}
		}
	}

	// C07: term never decreases within an incarnation
	if m.On["C07"] && post.Term < pre.Term {
		m.viol([]string{"C07"}, "term_monotone", "c07.term_decreased", "node %d term went %d -> %d", n.ID, pre.Term, post.Term)
	}
	if m.On["C07"] && post.Commit < pre.Commit {
		m.viol([]string{"C07", "C09"}, "commit_monotone", "c07.commit_decreased", "node %d commit went %d -> %d (%s)", n.ID, pre.Commit, post.Commit, c.Kind)
	}
	// C09: an installed snapshot stays the log base (pending in the unstable
	// log until acknowledged, in storage afterwards)
	if m.On["C09"] && n.mon.baseFloor != 0 && post.FirstIndex < n.mon.baseFloor+1 {
		m.viol([]string{"C09"}, "installed_snapshot_stays_base", "c09.log_base_fell_back",
			"node %d installed snapshot %d in this incarnation but its log now starts at %d (pending snapshot %d, cause %s)",
			n.ID, n.mon.baseFloor, post.FirstIndex, post.PendingSnapIndex, c.Kind)
	}
	// C06 oracle 2
	if (m.On["C06"] || m.On["C09"]) && post.Commit > post.LastIndex {
		m.viol([]string{"C06", "C09"}, "commit_le_last", "c06.commit_gt_last", "node %d commit %d > last index %d", n.ID, post.Commit, post.LastIndex)
	}

	// C02 oracle 1
	if isLeader {
		n.mon.ledTerm = post.Term
		if m.On["C02"] {
			cur := [2]uint64{n.ID, uint64(n.Inc)}
			if prev, ok := m.leaderOf[post.Term]; ok && prev != cur {
				m.viol([]string{"C02"}, "one_leader_per_term", "c02.two_leaders",
					"term %d: node %d (incarnation %d) acts as leader but node %d (incarnation %d) already did",
					post.Term, n.ID, n.Inc, prev[0], prev[1])
			} else if !ok {
				m.leaderOf[post.Term] = cur
			}
		} else if _, ok := m.leaderOf[post.Term]; !ok {
			m.leaderOf[post.Term] = [2]uint64{n.ID, uint64(n.Inc)}
		}
	}
	if becameLeader {
		s.Stats.inc("leader.elected")
		if cfgJoint(post) {
			s.Stats.inc("leader.elected_joint")
		}
		if n.Inc > 1 {
			s.Stats.inc("leader.elected_after_restart")
		}
		if reg.maxLeaderCommit > reg.Base+uint64(len(s.W.Voters)) {
			s.Stats.inc("leader.elected_with_history")
		}
		n.mon.leaderSince, n.mon.leaderTerm, n.mon.leaderSinceStep = n.Ticks, post.Term, s.Step
		n.mon.peerHeard = map[uint64]int{}
		n.mon.outstanding = map[uint64][]sentApp{}
		n.mon.lastTransferTick, n.mon.lastConfTick = n.Ticks, n.Ticks
		// C02 oracle 4 / C10 oracle 4: quorum of delivered grants
		if m.On["C02"] || m.On["C10"] {
			g := m.grants[[3]uint64{n.ID, uint64(n.Inc), post.Term}]
			if !refmodel.HasMajority(post.Voters, g) || !refmodel.HasMajority(post.VotersOutgoing, g) {
				m.viol([]string{"C02", "C10"}, "leader_has_vote_quorum", "c02.leader_without_quorum",
					"node %d became leader of term %d with delivered grants from %v, config %s",
					n.ID, post.Term, sortedU64(g), confOfState(post))
			}
		}
		// C04 oracle 1
		if m.On["C04"] {
			for idx := post.FirstIndex; idx <= reg.maxCommitted; idx++ {
				cr := reg.committed[idx]
				if cr == nil || cr.FirstCommitTerm >= post.Term {
					continue
				}
				t, ok := n.cachedTerm(idx)
				if !ok || t != cr.Term {
					m.viol([]string{"C04"}, "leader_completeness", "c04.leader_missing_committed",
						"node %d became leader of term %d but its log has term %d (present=%v) at index %d where (%d,%d) was committed in term %d",
						n.ID, post.Term, t, ok, idx, idx, cr.Term, cr.FirstCommitTerm)
					break
				}
				// same index and term but another entry (two leaderships of
				// one term wrote different entries): the committed entry is
				// just as absent
				if e := n.cachedEntry(idx); e != nil && (e.GetType() != cr.Type || dataHash(e.GetData()) != cr.DataHash) {
					m.viol([]string{"C04"}, "leader_completeness", "c04.leader_holds_other_entry",
						"node %d became leader of term %d but at index %d it holds a different entry with the term (%d) of the one committed in term %d",
						n.ID, post.Term, idx, cr.Term, cr.FirstCommitTerm)
					break
				}
			}
			// "every entry that any node has committed": a node that
			// committed something else at an index (state-machine safety is
			// already gone there) leaves every later leader incomplete
			var alsoIdx []uint64
			for idx := range reg.alsoCommitted {
				alsoIdx = append(alsoIdx, idx)
			}
			sort.Slice(alsoIdx, func(i, j int) bool { return alsoIdx[i] < alsoIdx[j] })
			for _, idx := range alsoIdx {
				for _, cr := range reg.alsoCommitted[idx] {
					if cr.FirstCommitTerm >= post.Term || idx < post.FirstIndex {
						continue
					}
					if e := n.cachedEntry(idx); e == nil || e.GetTerm() != cr.Term || e.GetType() != cr.Type || dataHash(e.GetData()) != cr.DataHash {
						m.viol([]string{"C04"}, "leader_completeness", "c04.leader_missing_entry_committed_elsewhere",
							"node %d became leader of term %d but lacks the entry (%d, term %d) that node %d reported committed in term %d (a different entry had been committed there first)",
							n.ID, post.Term, idx, cr.Term, cr.By, cr.FirstCommitTerm)
					}
				}
			}
		}
	}

	// C10 oracle 3: no campaign over a known-committed unapplied conf change
	startedCampaign := (post.State == raft.StatePreCandidate || post.State == raft.StateCandidate) &&
		(pre.State != post.State || pre.Term != post.Term) && c.Kind != "start"
	if startedCampaign {
		// Known finding raft.stale_config_campaign: the node holds >= 2
		// conf-change entries beyond its own commit index. Without a lost
		// commit index that cannot happen (a leader appends a second change
		// only after applying the first, and every append carrying the second
		// also carries a commit index covering the first), so the earlier
		// ones are committed - by others, or by an earlier incarnation of
		// this node - but the hasUnappliedConfChanges guard cannot see them:
		// the node campaigns, and if elected counts commit quorums, with a
		// configuration two or more changes behind its own log.
		unknown := 0
		for j := post.Applied + 1; j <= post.LastIndex; j++ {
			if j <= post.Commit {
				continue
			}
			if e := n.cachedEntry(j); e != nil && isConfEntry(e) {
				unknown++
			}
		}
		if unknown >= 2 {
			s.Stats.inc("finding.stale_config_campaign")
			m.knownPrecursor("raft.stale_config_campaign", fmt.Sprintf("node %d campaigns (term %d) with config %s while its log holds %d conf changes beyond its commit index %d", n.ID, post.Term, confOfState(post), unknown, post.Commit))
		}
		s.Stats.inc("campaign.started")
		if post.Commit > post.Applied {
			s.Stats.inc("campaign.with_unapplied_entries")
		}
		if cfgJoint(post) {
			s.Stats.inc("campaign.joint")
			in := setOf(post.Voters)
			only := 0
			for _, id := range post.VotersOutgoing {
				if !in[id] {
					only++
				}
			}
			if only >= 2 {
				s.Stats.inc("campaign.joint_two_outgoing_only")
			}
		}
		if m.On["C10"] {
			for j := post.Applied + 1; j <= post.Commit; j++ {
				if e := n.cachedEntry(j); e != nil && isConfEntry(e) {
					m.viol([]string{"C10"}, "no_campaign_with_unapplied_conf", "c10.campaign_over_unapplied_conf",
						"node %d started campaigning (state %v term %d) with committed but unapplied conf change at %d (applied %d commit %d)",
						n.ID, post.State, post.Term, j, post.Applied, post.Commit)
					break
				}
			}
		}
	}

	// C06 oracle 1: leader commit advance is quorum-backed and current-term
	if isLeader && post.Commit > pre.Commit && c.Kind != "start" {
		s.Stats.inc("commit.leader_advance")
		if cfgJoint(post) {
			s.Stats.inc("commit.leader_advance_joint")
		}
		if c.Kind == "applyconf" {
			s.Stats.inc("commit.advance_at_config_switch")
		}
		if m.On["C06"] || m.On["C05"] || m.On["C10"] {
			ci := post.Commit
			t, ok := n.cachedTerm(ci)
			if !ok || t != post.Term {
				m.viol([]string{"C06"}, "commit_current_term", "c06.commit_not_own_term",
					"leader %d (term %d) advanced commit to %d whose entry has term %d", n.ID, post.Term, ci, t)
			} else {
				for _, set := range [][]uint64{post.Voters, post.VotersOutgoing} {
					if len(set) == 0 {
						continue
					}
					have := map[uint64]bool{}
					for _, v := range set {
						if vn := s.Nodes[v]; vn != nil && vn.Disk.holds(ci, t) {
							have[v] = true
						}
					}
					if !refmodel.HasMajority(set, have) {
						m.viol([]string{"C06", "C05", "C10"}, "commit_quorum_durable", "c06.commit_without_durable_quorum",
							"leader %d (term %d) advanced commit to %d but only %v of voter set %v durably hold (%d,%d)",
							n.ID, post.Term, ci, sortedU64(have), set, ci, t)
					}
				}
			}
		}
	}
	if isLeader && post.Commit > reg.maxLeaderCommit {
		reg.maxLeaderCommit = post.Commit
	}
	// C06 oracle 3: follower commit never exceeds what some leader committed
	if m.On["C06"] && !isLeader && post.Commit > reg.maxLeaderCommit {
		m.viol([]string{"C06"}, "follower_commit_le_leader", "c06.follower_commit_ahead",
			"node %d (state %v) has commit %d but no leader ever had more than %d", n.ID, post.State, post.Commit, reg.maxLeaderCommit)
	}
	if !isLeader && post.Commit > pre.Commit {
		s.Stats.inc("commit.follower_advance")
	}

	m.c17State(n, pre, post, c)
	m.c16State(n, pre, post, c)
	m.c09Deliver(n, pre, post, c)
	m.c11State(n, pre, post, c)
	m.c20State(n, pre, post, c)
	m.c08State(n, pre, post, c)
}

// c08State clears the outstanding-snapshot marker once the install is
// acknowledged (sync: Advance; async: MsgStorageAppendResp delivered).
func (m *Monitors) c08State(n *Node, pre, post *raft.VerifState, c *Cause) {
	// coverage: storage acks that arrive after the node's term moved on
	var acks []*pb.Message
	switch c.Kind {
	case "advance":
		acks = pre.StepsOnAdvance
	case "self":
		acks = []*pb.Message{c.Msg}
	}
	for _, a := range acks {
		if a != nil && a.GetType() == pb.MsgStorageAppendResp && a.GetTerm() < pre.Term {
			m.s.Stats.inc("storage.ack_of_older_term")
			if a.GetIndex() != 0 && n.Up {
				if t, err := n.RN.VerifLogTerm(a.GetIndex()); err == nil && t == a.GetLogTerm() && a.GetIndex() >= post.UnstableOffset {
					// the stale acknowledgement names an entry that is (again)
					// in the unstable log: the ABA window of newStorageAppendRespMsg
					m.s.Stats.inc("storage.ack_of_older_term_matches_unstable")
					aba := false
					for _, q := range n.AppendQ {
						for _, e := range q.GetEntries() {
							if e.GetIndex() == a.GetIndex() && e.GetTerm() != a.GetLogTerm() {
								aba = true
							}
						}
					}
					if t, ok := n.Disk.termAt(a.GetIndex()); (ok && t != a.GetLogTerm()) || (!ok && a.GetIndex() > n.Disk.last()) {
						// the acknowledged write was since replaced (or cut
						// off) in storage by a later one
						aba = true
					}
					if aba {
						// ... while a different term at that index is in
						// storage or in a write queued behind: true ABA
						m.s.Stats.inc("storage.ack_aba_older_term")
					}
				}
			}
			if a.GetSnapshot() != nil {
				m.s.Stats.inc("storage.snapshot_ack_of_older_term")
			}
		}
		// ABA inside one term: the acknowledged (index, term) was replaced
		// by a different term at the same index after the write was issued
		if a != nil && a.GetType() == pb.MsgStorageAppendResp && a.GetTerm() == pre.Term && a.GetIndex() != 0 && n.Up {
			if t, err := n.RN.VerifLogTerm(a.GetIndex()); err == nil && t != a.GetLogTerm() {
				m.s.Stats.inc("storage.ack_aba_same_term")
			}
		}
	}
	if n.mon.snapOutstanding == 0 {
		return
	}
	switch {
	case c.Kind == "advance":
		n.mon.snapOutstanding = 0
	case c.Kind == "self" && c.Msg.GetType() == pb.MsgStorageAppendResp && c.Msg.GetSnapshot() != nil:
		if c.Msg.GetSnapshot().GetMetadata().GetIndex() == n.mon.snapOutstanding {
			n.mon.snapOutstanding = 0
		}
	}
}

// ------------------------------------------------------------------ Ready

func (m *Monitors) onReady(n *Node, rd *raft.Ready) {
	s := m.s
	s.recordReady(n, rd)
	st := n.RN.VerifState()
	// gather the async parts
	var hs *pb.HardState
	var snap *pb.Snapshot
	var committed []*pb.Entry
	var hasApply bool
	if n.Opts.Async {
		for _, mm := range rd.Messages {
			switch mm.GetType() {
			case pb.MsgStorageAppend:
				hs = appendMsgHS(mm)
				if mm.GetSnapshot() != nil && !raft.IsEmptySnap(mm.GetSnapshot()) {
					snap = mm.GetSnapshot()
				}
			case pb.MsgStorageApply:
				committed = mm.GetEntries()
				hasApply = true
			}
		}
		if m.On["C14"] || m.On["C08"] {
			if len(rd.CommittedEntries) > 0 && !hasApply {
				m.viol([]string{"C08"}, "async_apply_msg", "c08.committed_without_apply_msg",
					"node %d: async Ready has CommittedEntries but no MsgStorageApply", n.ID)
			}
		}
	} else {
		hs = hsOf(rd)
		if !raft.IsEmptySnap(rd.Snapshot) {
			snap = rd.Snapshot
		}
		committed = rd.CommittedEntries
	}

	// exposure high-water mark (C11's G)
	if hs != nil && hs.GetCommit() > s.Reg.maxExposedCommit {
		s.Reg.maxExposedCommit = hs.GetCommit()
	}
	if len(committed) > 0 {
		if li := committed[len(committed)-1].GetIndex(); li > s.Reg.maxExposedCommit {
			s.Reg.maxExposedCommit = li
		}
	}

	// C07 (a): exposed hard states within the incarnation
	if hs != nil && m.On["C07"] {
		e := n.mon.exp
		if hs.GetTerm() < e.term {
			m.viol([]string{"C07"}, "exposed_term_monotone", "c07.exposed_term_decreased",
				"node %d exposed hard state term %d after %d", n.ID, hs.GetTerm(), e.term)
		}
		if hs.GetCommit() < e.commit {
			m.viol([]string{"C07"}, "exposed_commit_monotone", "c07.exposed_commit_decreased",
				"node %d exposed hard state commit %d after %d", n.ID, hs.GetCommit(), e.commit)
		}
		if hs.GetTerm() == e.term && e.vote != 0 && hs.GetVote() != e.vote {
			m.viol([]string{"C07", "C02"}, "one_vote_per_term", "c07.vote_changed",
				"node %d exposed vote %d in term %d after vote %d", n.ID, hs.GetVote(), hs.GetTerm(), e.vote)
		}
	}
	if hs != nil {
		if hs.GetTerm() != n.mon.exp.term {
			s.Stats.inc("hs.term_change")
		}
		n.mon.exp = hsTriple{hs.GetTerm(), hs.GetVote(), hs.GetCommit()}
	}
	// C07 (a'): "exposes": the hard state is handed out whenever it changed
	// (Ready doc: HardState is the current state to be saved before Messages
	// are sent, empty if there is no update), so after a Ready was taken the
	// last exposed hard state is the node's current one. A change that is
	// never exposed is never persisted, and the node would not continue from
	// it after a restart.
	if m.On["C07"] {
		if e := n.mon.exp; e.term != st.Term || e.vote != st.Vote || e.commit != st.Commit {
			m.viol([]string{"C07"}, "hard_state_exposed", "c07.hard_state_not_exposed",
				"node %d: after taking a Ready the last exposed hard state is (term %d vote %d commit %d) but the node is at (term %d vote %d commit %d)",
				n.ID, e.term, e.vote, e.commit, st.Term, st.Vote, st.Commit)
		}
	}

	// C08: apply stream
	if m.On["C08"] {
		if len(committed) > 0 {
			if n.mon.snapOutstanding != 0 {
				m.viol([]string{"C08"}, "no_apply_during_snapshot", "c08.apply_during_snapshot",
					"node %d handed out committed entries [%d..] while snapshot %d is outstanding", n.ID, committed[0].GetIndex(), n.mon.snapOutstanding)
			}
			if snap != nil {
				m.viol([]string{"C08"}, "no_apply_with_snapshot", "c08.apply_with_snapshot",
					"node %d: one Ready carries snapshot %d and committed entries", n.ID, snap.GetMetadata().GetIndex())
			}
			if committed[0].GetIndex() != n.mon.next {
				m.viol([]string{"C08"}, "apply_contiguous", "c08.batch_start",
					"node %d: committed batch starts at %d, expected %d", n.ID, committed[0].GetIndex(), n.mon.next)
			}
			for i, e := range committed {
				if e.GetIndex() != committed[0].GetIndex()+uint64(i) {
					m.viol([]string{"C08"}, "apply_contiguous", "c08.batch_gap",
						"node %d: committed batch not contiguous at position %d (index %d)", n.ID, i, e.GetIndex())
				}
			}
			lastI := committed[len(committed)-1].GetIndex()
			if lastI > st.Commit {
				m.viol([]string{"C08"}, "apply_within_commit", "c08.beyond_commit",
					"node %d: committed batch ends at %d beyond commit %d", n.ID, lastI, st.Commit)
			}
			if n.Opts.Async {
				for _, e := range committed {
					if t, ok := n.Disk.termAt(e.GetIndex()); !ok || t != e.GetTerm() {
						m.viol([]string{"C08"}, "async_apply_durable", "c08.apply_not_durable",
							"node %d (async): entry (%d,%d) handed for application is not in the durable log (durable term %d, present %v)",
							n.ID, e.GetIndex(), e.GetTerm(), t, ok)
						break
					}
				}
			}
			n.mon.next = lastI + 1
			if len(n.ApplyQ) > 0 {
				s.Stats.inc("apply.pipelined_batches")
			}
		}
	} else if len(committed) > 0 {
		n.mon.next = committed[len(committed)-1].GetIndex() + 1
	}
	if snap != nil {
		n.mon.next = snap.GetMetadata().GetIndex() + 1
		n.mon.snapOutstanding = snap.GetMetadata().GetIndex()
		m.checkSnapshotAgainstRegistry(n, snap, "handed for install on", []string{"C01", "C09"})
	}

	// C11 oracle 1
	for _, rs := range rd.ReadStates {
		m.c11ReadState(n, rs)
	}
}

func (m *Monitors) checkSnapshotAgainstRegistry(n *Node, snap *pb.Snapshot, what string, props []string) {
	reg := m.s.Reg
	idx, term := snap.GetMetadata().GetIndex(), snap.GetMetadata().GetTerm()
	if cr := reg.committed[idx]; cr != nil && cr.Term != term {
		m.viol(props, "snapshot_is_committed_prefix", "c09.snapshot_term_mismatch",
			"snapshot (%d,%d) %s node %d but (%d,%d) is committed", idx, term, what, n.ID, idx, cr.Term)
	}
	if h, ok := reg.chainAt(idx); ok && h != leU64(snap.GetData()) {
		m.viol(props, "snapshot_is_committed_prefix", "c09.snapshot_state_mismatch",
			"snapshot (%d,%d) %s node %d carries state %x but the committed prefix yields %x", idx, term, what, n.ID, leU64(snap.GetData()), h)
	}
	if c, ok := reg.confAtIndex(idx); ok && !c.EqualConfState(snap.GetMetadata().GetConfState()) {
		m.viol(props, "snapshot_is_committed_prefix", "c09.snapshot_conf_mismatch",
			"snapshot (%d,%d) %s node %d has membership %v but the committed prefix yields %s", idx, term, what, n.ID, snap.GetMetadata().GetConfState(), c)
	}
}

// ------------------------------------------------------------------ apply

func (m *Monitors) onApplyBatch(n *Node, ents []*pb.Entry) {
	s := m.s
	st := n.RN.VerifState()
	for _, e := range ents {
		if bad := s.Reg.observeCommitted(e, st.Term, n.ID); bad != nil {
			m.viol([]string{"C01"}, "same_entry_everywhere", "c01.applied_entry_differs",
				"node %d is handed (%d,%d) for application but (%d,%d) was committed first (node %d, step %d)",
				n.ID, e.GetIndex(), e.GetTerm(), e.GetIndex(), bad.Term, bad.By, bad.Step)
		}
	}
	for _, e := range ents {
		by := m.appliedBy[e.GetIndex()]
		if by == 0 {
			m.appliedBy[e.GetIndex()] = n.ID
		} else if by != n.ID {
			s.Stats.inc("apply.shared_index")
		}
	}
	s.Stats.inc("apply.batches")
	s.Stats.add("apply.entries", len(ents))
}

func (m *Monitors) afterApply(n *Node) {
	if !m.On["C01"] {
		return
	}
	if h, ok := m.s.Reg.chainAt(n.SM.Applied); ok && h != n.SM.Hash {
		m.viol([]string{"C01"}, "state_machine_agrees", "c01.state_differs",
			"node %d state machine at applied %d is %x but the committed prefix yields %x", n.ID, n.SM.Applied, n.SM.Hash, h)
	}
}

func (m *Monitors) onConfApplied(n *Node, e *pb.Entry, cs *pb.ConfState) {
	s := m.s
	n.mon.lastConfTick = n.Ticks
	if !m.On["C10"] {
		return
	}
	_ = s
	m.confAppliedCheck(n, e.GetIndex(), n.SM.Conf, cs)
}

// confAppliedCheck: the application folded the change into its model (want)
// and raft returned cs. bootstrap.go: "these nodes will be added to raft
// twice" - initial members are compared from len(peers)+1 on.
func (m *Monitors) confAppliedCheck(n *Node, idx uint64, want refmodel.Conf, cs *pb.ConfState) {
	if !m.On["C10"] {
		return
	}
	if n.BootMember && idx <= uint64(len(m.s.W.Voters)) {
		return
	}
	if !want.EqualConfState(cs) {
		m.viol([]string{"C10", "C13"}, "config_is_fold_of_log", "c10.config_differs",
			"node %d: after applying conf change at %d raft reports %v, folding the committed changes yields %s", n.ID, idx, cs, want)
	}
	st := n.RN.VerifState()
	if !confOfState(&st).Equal(want) {
		m.viol([]string{"C10", "C13"}, "config_is_fold_of_log", "c10.active_config_differs",
			"node %d: active config after applying %d is %s, expected %s", n.ID, idx, confOfState(&st), want)
	}
}

// ------------------------------------------------------------------ persist

func (m *Monitors) onPersistEntries(n *Node, ents []*pb.Entry) {}

func (m *Monitors) onPersistHS(n *Node, hs *pb.HardState) {
	if !m.On["C07"] {
		return
	}
	old := n.Disk.HS
	if old == nil {
		return
	}
	if hs.GetTerm() < old.GetTerm() {
		m.viol([]string{"C07"}, "persisted_term_monotone", "c07.persisted_term_decreased",
			"node %d persists term %d over durable term %d", n.ID, hs.GetTerm(), old.GetTerm())
	}
	if hs.GetCommit() < old.GetCommit() {
		m.viol([]string{"C07"}, "persisted_commit_monotone", "c07.persisted_commit_decreased",
			"node %d persists commit %d over durable commit %d", n.ID, hs.GetCommit(), old.GetCommit())
	}
	if hs.GetTerm() == old.GetTerm() && old.GetVote() != 0 && hs.GetVote() != old.GetVote() {
		m.viol([]string{"C07", "C02"}, "persisted_one_vote_per_term", "c07.persisted_vote_changed",
			"node %d persists vote %d in term %d over durable vote %d", n.ID, hs.GetVote(), hs.GetTerm(), old.GetVote())
	}
}

func (m *Monitors) onPersistSnapshot(n *Node, snap *pb.Snapshot) {}

// ------------------------------------------------------------------ release (message handed to the network)

func (m *Monitors) onRelease(n *Node, f *Flight) {
	s := m.s
	m.flightByID[f.ID] = f
	msg := f.M
	d := n.Disk
	T := msg.GetTerm()
	s.Stats.inc("msg." + msg.GetType().String())

	if msg.GetTo() == n.ID || msg.GetTo() == raft.LocalAppendThread || msg.GetTo() == raft.LocalApplyThread {
		m.viol([]string{"C14"}, "no_self_addressed_network_msg", "c14.self_addressed",
			"node %d hands a message addressed to %d to the network: %s", n.ID, msg.GetTo(), shortMsg(msg))
	}
	// C07 (c): never acts in a term lower than the loaded one
	if m.On["C07"] && T != 0 && T < n.mon.termFloor {
		m.viol([]string{"C07"}, "no_action_below_restart_term", "c07.message_below_floor",
			"node %d (restarted at term %d) sends %s", n.ID, n.mon.termFloor, shortMsg(msg))
	}
	switch msg.GetType() {
	case pb.MsgVoteResp:
		if msg.GetReject() {
			break
		}
		cand := msg.GetTo()
		if m.On["C02"] || m.On["C05"] {
			key := [2]uint64{n.ID, T}
			if prev, ok := m.votedFor[key]; ok && prev != cand {
				m.viol([]string{"C02"}, "one_vote_per_term", "c02.double_vote",
					"node %d grants its term-%d vote to %d after granting it to %d", n.ID, T, cand, prev)
			}
			m.votedFor[key] = cand
			// durable = fsynced: a written but un-synced hard state does not
			// survive a crash (the application syncs exactly when raft's
			// MustSync / non-empty Responses demand it).
			ht, hv := d.SyncedHS.GetTerm(), d.SyncedHS.GetVote()
			if !(ht > T || (ht == T && hv == cand)) {
				m.viol([]string{"C05", "C02"}, "vote_durable_before_visible", "c05.vote_not_durable",
					"node %d releases a term-%d vote for %d but its durable (synced) hard state is (term %d, vote %d); written: %v", n.ID, T, cand, ht, hv, d.HS)
			}
		}
		s.Stats.inc("vote.granted_released")
	case pb.MsgAppResp:
		if msg.GetReject() || msg.GetIndex() == 0 {
			break
		}
		if m.On["C05"] {
			i := msg.GetIndex()
			ht := d.SyncedHS.GetTerm()
			ok := ht > T
			if !ok {
				if f.AckKnown {
					ok = d.holds(i, f.AckTerm)
				} else {
					ok = i <= d.last() || i < d.first()
				}
			}
			if !ok {
				dt, _ := d.termAt(i)
				m.viol([]string{"C05"}, "ack_durable_before_visible", "c05.ack_not_durable",
					"node %d releases MsgAppResp(index %d, term %d, acked entry term %d) but durable log has last index %d, term %d at %d, durable term %d",
					n.ID, i, T, f.AckTerm, d.last(), dt, i, ht)
			}
		}
	case pb.MsgApp:
		m.c03WireApp(n, f)
		m.c16WireApp(n, f)
	case pb.MsgSnap:
		m.c09WireSnap(n, f)
	}
}

// c03WireApp checks a MsgApp on the wire against the entry registry.
func (m *Monitors) c03WireApp(n *Node, f *Flight) {
	if !m.On["C03"] {
		return
	}
	msg := f.M
	prevIdx, prevTerm := msg.GetIndex(), msg.GetLogTerm()
	for i, e := range msg.GetEntries() {
		if e.GetIndex() != prevIdx+1 || e.GetTerm() < prevTerm || e.GetTerm() > msg.GetTerm() {
			m.viol([]string{"C03"}, "wire_append_wellformed", "c03.bad_append",
				"node %d sends MsgApp whose entry %d is (%d,%d) after (%d,%d), leader term %d", n.ID, i, e.GetIndex(), e.GetTerm(), prevIdx, prevTerm, msg.GetTerm())
			return
		}
		if rec := m.s.Reg.entryAt[[2]uint64{e.GetIndex(), e.GetTerm()}]; rec != nil {
			if rec.Type != e.GetType() || rec.DataHash != dataHash(e.GetData()) {
				m.viol([]string{"C03"}, "same_index_term_same_entry", "c03.wire_content_differs",
					"node %d sends entry (%d,%d) that differs from the entry known at that index and term", n.ID, e.GetIndex(), e.GetTerm())
			}
			if rec.PrevKnown && prevIdx > 0 && rec.PrevTerm != prevTerm {
				m.viol([]string{"C03"}, "same_index_term_same_prefix", "c03.wire_prefix_differs",
					"node %d sends entry (%d,%d) preceded by term %d, known predecessor term %d", n.ID, e.GetIndex(), e.GetTerm(), prevTerm, rec.PrevTerm)
			}
		}
		prevIdx, prevTerm = e.GetIndex(), e.GetTerm()
	}
}

func (m *Monitors) c16WireApp(n *Node, f *Flight) {
	if !m.On["C16"] {
		return
	}
	ents := f.M.GetEntries()
	if len(ents) <= 1 {
		return
	}
	var size uint64
	for _, e := range ents {
		size += uint64(proto.Size(e))
	}
	if size > n.Opts.MaxSizePerMsg {
		m.viol([]string{"C16"}, "append_size_limit", "c16.msg_too_large",
			"node %d sends MsgApp with %d entries of total encoded size %d > MaxSizePerMsg %d", n.ID, len(ents), size, n.Opts.MaxSizePerMsg)
	}
	m.s.Stats.inc("app.multi_entry")
}

func (m *Monitors) c09WireSnap(n *Node, f *Flight) {
	s := m.s
	snap := f.M.GetSnapshot()
	s.Stats.inc("snap.sent")
	if !m.On["C09"] {
		return
	}
	idx := snap.GetMetadata().GetIndex()
	if idx > s.Reg.maxLeaderCommit {
		m.viol([]string{"C09"}, "snapshot_is_committed_prefix", "c09.snapshot_beyond_commit",
			"node %d sends snapshot at %d but no leader committed beyond %d", n.ID, idx, s.Reg.maxLeaderCommit)
	}
	m.checkSnapshotAgainstRegistry(n, snap, "sent by", []string{"C09"})
}

// ------------------------------------------------------------------ deliver

func (m *Monitors) beforeDeliver(n *Node, f *Flight) {
	msg := f.M
	// C20: count deliveries of proposals to a node that is leader right now
	if msg.GetType() != pb.MsgProp {
		return
	}
	st := n.RN.VerifState()
	seen := map[*Proposal]bool{}
	for _, e := range msg.GetEntries() {
		var p *Proposal
		if e.GetType() == pb.EntryNormal {
			if seq, _, ok := parseTag(e.GetData()); ok {
				p = m.props[seq]
			}
		} else {
			p = m.confDatas[string(e.GetData())]
		}
		if p == nil || seen[p] {
			continue
		}
		seen[p] = true
		if st.State == raft.StateLeader {
			p.LeaderDeliveries++
			if p.Conf {
				m.neutral[st.Term]++
			}
			if f.Deliveries > 1 {
				m.s.Stats.inc("prop.forward_dup_to_leader")
			}
			if lr, ok := m.leaderOf[st.Term]; ok && p.Step < n.mon.leaderSinceStep && lr[0] == n.ID {
				m.s.Stats.inc("prop.forward_after_leader_change")
			}
		}
	}
	m.s.Stats.inc("prop.forward_delivered")
}

func (m *Monitors) onDelivered(n *Node, f *Flight, err error) {}

// msgCreationChecks runs oracles on messages raft created during a touch.
func (m *Monitors) msgCreationChecks(n *Node, pre, post *raft.VerifState, c *Cause, newMsgs, newAfter []*pb.Message) {
	// grants / pregrants bookkeeping on delivery of vote responses
	if c.Kind == "deliver" {
		msg := c.Flight.M
		switch msg.GetType() {
		case pb.MsgVote, pb.MsgPreVote:
			m.c02VoteRequest(n, pre, post, msg, newAfter)
			m.c17VoteRequest(n, pre, post, msg, newAfter)
		}
	}
	_ = newMsgs
}

func (m *Monitors) addGrant(tab map[[3]uint64]map[uint64]bool, n *Node, term, from uint64) {
	k := [3]uint64{n.ID, uint64(n.Inc), term}
	if tab[k] == nil {
		tab[k] = map[uint64]bool{}
	}
	tab[k][from] = true
}

// selfVotes records self-addressed vote responses being stepped (sync:
// Advance; async: self delivery).
func (m *Monitors) selfVotes(n *Node, pre *raft.VerifState, c *Cause) {
	var ms []*pb.Message
	switch c.Kind {
	case "advance":
		ms = pre.StepsOnAdvance
	case "self":
		ms = []*pb.Message{c.Msg}
	}
	for _, sm := range ms {
		if sm == nil || sm.GetReject() || sm.GetTo() != n.ID {
			continue
		}
		switch sm.GetType() {
		case pb.MsgVoteResp:
			m.addGrant(m.grants, n, sm.GetTerm(), n.ID)
		case pb.MsgPreVoteResp:
			m.addGrant(m.pregrants, n, sm.GetTerm(), n.ID)
		}
	}
}

// c02VoteRequest: oracle 3 (up-to-date rule) on a granted real vote.
func (m *Monitors) c02VoteRequest(n *Node, pre, post *raft.VerifState, req *pb.Message, newAfter []*pb.Message) {
	if req.GetType() != pb.MsgVote {
		return
	}
	for _, r := range newAfter {
		if r.GetType() == pb.MsgVoteResp && !r.GetReject() && r.GetTo() == req.GetFrom() {
			m.s.Stats.inc("vote.granted")
			if bytes.Equal(req.GetContext(), []byte("CampaignTransfer")) {
				m.s.Stats.inc("vote.granted_forced")
			}
			if !m.On["C02"] {
				return
			}
			ct, ci := req.GetLogTerm(), req.GetIndex()
			if ct < pre.LastTerm || (ct == pre.LastTerm && ci < pre.LastIndex) {
				m.viol([]string{"C02"}, "vote_only_up_to_date", "c02.vote_for_stale_log",
					"node %d (last entry (%d,%d)) grants its vote to %d whose last entry is (%d,%d)",
					n.ID, pre.LastIndex, pre.LastTerm, req.GetFrom(), ci, ct)
			}
		}
	}
}

// ------------------------------------------------------------------ proposals (C20)

func (m *Monitors) beforePropose(n *Node, p *Proposal) {
	m.props[p.Seq] = p
	st := n.RN.VerifState()
	p.AtRole = st.State
	if p.Conf {
		m.confDatas[string(p.Datas[0])] = p
	}
	if st.State == raft.StateLeader {
		p.LeaderDeliveries++
		if p.Conf {
			m.neutral[st.Term]++
		}
	}
}

func (m *Monitors) afterPropose(n *Node, p *Proposal) {
	s := m.s
	if p.Err == nil {
		s.Stats.inc("prop.accepted")
	} else {
		s.Stats.inc("prop.dropped")
	}
}

// c20State: "dropped means dropped" and "exactly once at the leader itself".
func (m *Monitors) c20State(n *Node, pre, post *raft.VerifState, c *Cause) {
	if !m.On["C20"] {
		return
	}
	newProp := func() bool {
		if len(post.Msgs) > len(pre.Msgs) {
			for _, mm := range post.Msgs[len(pre.Msgs):] {
				if mm.GetType() == pb.MsgProp {
					return true
				}
			}
		}
		return false
	}
	switch {
	case c.Kind == "propose" && c.Prop != nil:
		p := c.Prop
		if isDropped(p.Err) {
			if post.LastIndex != pre.LastIndex || newProp() {
				m.viol([]string{"C20"}, "dropped_means_dropped", "c20.dropped_but_appended",
					"node %d: proposal p%d returned ErrProposalDropped but last index went %d -> %d (forwarded=%v)", n.ID, p.Seq, pre.LastIndex, post.LastIndex, newProp())
			}
			if pre.State == raft.StateLeader {
				p.LeaderDeliveries-- // it produced nothing and never will
				if p.Conf {
					m.neutral[pre.Term]--
				}
			}
			return
		}
		if p.Err == nil && pre.State == raft.StateLeader {
			p.LocalAccepted = true
			want := pre.LastIndex + uint64(len(p.Datas))
			if post.State == raft.StateLeader && post.LastIndex != want {
				m.viol([]string{"C20"}, "exactly_once_at_leader", "c20.not_exactly_once",
					"leader %d accepted proposal p%d with %d entries but last index went %d -> %d", n.ID, p.Seq, len(p.Datas), pre.LastIndex, post.LastIndex)
				return
			}
			for k := range p.Datas {
				e := n.cachedEntry(pre.LastIndex + 1 + uint64(k))
				if e == nil {
					continue
				}
				neutralized := p.Conf && e.GetType() == pb.EntryNormal && len(e.GetData()) == 0
				if !neutralized && (e.GetType() != p.Types[k] || !bytes.Equal(e.GetData(), p.Datas[k])) {
					m.viol([]string{"C20"}, "payload_preserved", "c20.payload_changed",
						"leader %d: entry %d appended for p%d.%d has type %v and %d bytes, proposed type %v and %d bytes",
						n.ID, e.GetIndex(), p.Seq, k, e.GetType(), len(e.GetData()), p.Types[k], len(p.Datas[k]))
				}
				if neutralized {
					m.s.Stats.inc("conf.neutralized")
				}
			}
		}
	case c.Kind == "deliver" && c.Flight.M.GetType() == pb.MsgProp && isDropped(c.Err):
		if post.LastIndex != pre.LastIndex || newProp() {
			m.viol([]string{"C20"}, "dropped_means_dropped", "c20.dropped_but_appended",
				"node %d: forwarded proposal returned ErrProposalDropped but last index went %d -> %d", n.ID, pre.LastIndex, post.LastIndex)
		}
	}
}

// ------------------------------------------------------------------ C09 deliver

func (m *Monitors) c09Deliver(n *Node, pre, post *raft.VerifState, c *Cause) {
	// leader bookkeeping after a reported snapshot outcome: the follower is
	// probed again, from Match+1 after a failure, from the snapshot index + 1
	// after success
	if c.Kind == "reportsnap" && c.Msg != nil && m.On["C09"] && pre.State == raft.StateLeader && post.State == raft.StateLeader {
		to := c.Msg.GetFrom()
		if pp, qp := n.progressOf(pre, to), n.progressOf(post, to); pp != nil && qp != nil && pp.State == tracker.StateSnapshot {
			want := pp.Match + 1
			if !c.Msg.GetReject() && pp.PendingSnapshot+1 > want {
				want = pp.PendingSnapshot + 1
			}
			m.s.Stats.inc("snap.outcome_reported")
			if qp.State != tracker.StateProbe || qp.Next != want {
				m.viol([]string{"C09"}, "probe_after_snapshot_outcome", "c09.bad_progress_after_report",
					"leader %d: ReportSnapshot(%d, failure=%v) with match %d pending %d left the progress in %v next %d, expected StateProbe next %d",
					n.ID, to, c.Msg.GetReject(), pp.Match, pp.PendingSnapshot, qp.State, qp.Next, want)
			}
		}
	}
	if c.Kind != "deliver" || c.Flight.M.GetType() != pb.MsgSnap {
		return
	}
	s := m.s
	snap := c.Flight.M.GetSnapshot()
	si, stt := snap.GetMetadata().GetIndex(), snap.GetMetadata().GetTerm()
	installed := post.PendingSnapIndex == si && post.PendingSnapTerm == stt &&
		!(pre.PendingSnapIndex == si && pre.PendingSnapTerm == stt) && post.FirstIndex == si+1
	s.Stats.inc("snap.delivered")
	if installed {
		s.Stats.inc("snap.accepted")
		if pre.LastIndex > pre.Commit {
			s.Stats.inc("snap.accepted_over_uncommitted_tail")
		}
		if pre.PendingSnapIndex != 0 {
			s.Stats.inc("snap.accepted_while_pending")
		}
		if pre.UnstableLen > 0 && si >= pre.UnstableOffset && si+1-pre.UnstableOffset < uint64(pre.UnstableLen) {
			// the snapshot ends strictly inside the (divergent) unstable entries
			s.Stats.inc("snap.accepted_inside_unstable_tail")
		}
	} else {
		s.Stats.inc("snap.ignored")
	}
	if c.Flight.Deliveries > 1 {
		s.Stats.inc("snap.delivered_dup")
	}
	if !isMember(&raft.VerifState{Voters: snap.GetMetadata().GetConfState().GetVoters(), VotersOutgoing: snap.GetMetadata().GetConfState().GetVotersOutgoing(),
		Learners: snap.GetMetadata().GetConfState().GetLearners(), LearnersNext: snap.GetMetadata().GetConfState().GetLearnersNext()}, n.ID) {
		s.Stats.inc("snap.delivered_to_non_member")
	}
	if !m.On["C09"] {
		return
	}
	// local log matched (index, term) before the delivery?
	matched := false
	if e := m.preTerm(n, pre, si); e == stt && e != 0 {
		matched = true
	}
	mustNot := si <= pre.Commit || matched
	if installed {
		n.mon.baseFloor = si
		if mustNot {
			m.viol([]string{"C09"}, "no_install_when_obsolete", "c09.installed_obsolete_snapshot",
				"node %d installed snapshot (%d,%d) although commit was %d and local term at %d matched=%v", n.ID, si, stt, pre.Commit, si, matched)
		}
		if post.LastIndex != si || post.Commit != si || post.BaseTerm != stt {
			m.viol([]string{"C09"}, "install_resets_log", "c09.bad_install_state",
				"node %d installed snapshot (%d,%d) but now has first %d last %d commit %d base term %d", n.ID, si, stt, post.FirstIndex, post.LastIndex, post.Commit, post.BaseTerm)
		}
		if !confOfState(post).EqualConfState(snap.GetMetadata().GetConfState()) {
			m.viol([]string{"C09", "C10"}, "install_sets_membership", "c09.bad_install_config",
				"node %d installed snapshot with membership %v but active config is %s", n.ID, snap.GetMetadata().GetConfState(), confOfState(post))
		}
		if cr := s.Reg.committed[si]; cr != nil && cr.Term != stt {
			m.viol([]string{"C09", "C01"}, "install_keeps_committed", "c09.install_forks",
				"node %d installed snapshot (%d,%d) but (%d,%d) is committed", n.ID, si, stt, si, cr.Term)
		}
	} else {
		if post.FirstIndex != pre.FirstIndex || post.LastIndex != pre.LastIndex || post.PendingSnapIndex != pre.PendingSnapIndex {
			m.viol([]string{"C09"}, "ignored_snapshot_changes_nothing", "c09.ignored_but_changed",
				"node %d did not install snapshot (%d,%d) yet its log went [%d,%d]->[%d,%d]", n.ID, si, stt, pre.FirstIndex, pre.LastIndex, post.FirstIndex, post.LastIndex)
		}
		want := pre.Commit
		if matched && si > want {
			want = si
		}
		if post.Commit != pre.Commit && post.Commit != want {
			m.viol([]string{"C09"}, "ignored_snapshot_commit", "c09.ignored_commit_moved",
				"node %d ignored snapshot (%d,%d) but commit went %d -> %d", n.ID, si, stt, pre.Commit, post.Commit)
		}
	}
	if post.Commit < pre.Commit {
		m.viol([]string{"C09"}, "commit_never_lowered", "c09.commit_lowered", "node %d commit %d -> %d on MsgSnap", n.ID, pre.Commit, post.Commit)
	}
}

// preTerm returns the term n's log had at idx before the current touch,
// from the scan cache (which reflects the pre-state until scanLog runs; it is
// therefore captured by stateChecks callers before scanLog — see afterTouch
// ordering note) — fall back to 0 when unknown.
func (m *Monitors) preTerm(n *Node, pre *raft.VerifState, idx uint64) uint64 {
	if idx+1 == pre.FirstIndex {
		return pre.BaseTerm
	}
	if t, ok := n.mon.preCacheTerm(idx); ok {
		return t
	}
	return 0
}

// ------------------------------------------------------------------ C11

func (m *Monitors) beforeReadIndex(n *Node, ctx string) {
	s := m.s
	r := m.reads[ctx]
	if r == nil {
		r = &readRec{Ctx: ctx, Node: n.ID, G: s.Reg.maxExposedCommit, Step: s.Step, recv: map[[2]uint64]int{}}
		m.reads[ctx] = r
	}
	r.Count++
	st := n.RN.VerifState()
	s.Stats.inc("read.issued")
	if st.State != raft.StateLeader {
		s.Stats.inc("read.issued_at_non_leader")
	}
}

func (m *Monitors) c11ReadState(n *Node, rs raft.ReadState) {
	s := m.s
	s.Stats.inc("read.answered")
	r := m.reads[string(rs.RequestCtx)]
	if r != nil && r.Node == n.ID {
		r.Answered++
	}
	if !m.On["C11"] || !m.allSafe {
		return
	}
	if r == nil || r.Node != n.ID {
		m.viol([]string{"C11"}, "read_ctx_is_own", "c11.foreign_ctx",
			"node %d reports a read state for context %q it never requested", n.ID, rs.RequestCtx)
		return
	}
	if rs.Index < r.G {
		sig := "c11.index_below_G"
		m.viol([]string{"C11"}, "read_index_ge_commit_at_issue", sig,
			"node %d: read %s answered with index %d but commit index %d had been reported when it was issued (step %d)",
			n.ID, r.Ctx, rs.Index, r.G, r.Step)
	}
}

// c11State: oracle 2 — who may answer and after hearing from whom.
func (m *Monitors) c11State(n *Node, pre, post *raft.VerifState, c *Cause) {
	s := m.s
	lk := [2]uint64{n.ID, uint64(n.Inc)}
	// request receipt at a leader
	if pre.State == raft.StateLeader {
		switch {
		case c.Kind == "readindex":
			if r := m.reads[string(c.Msg.GetContext())]; r != nil {
				if _, ok := r.recv[lk]; !ok {
					r.recv[lk] = s.Step
				}
			}
		case c.Kind == "deliver" && c.Flight.M.GetType() == pb.MsgReadIndex && len(c.Flight.M.GetEntries()) == 1:
			if r := m.reads[string(c.Flight.M.GetEntries()[0].GetData())]; r != nil {
				if _, ok := r.recv[lk]; !ok {
					r.recv[lk] = s.Step
				}
			}
		}
	}
	// heartbeat acks
	if c.Kind == "deliver" && c.Flight.M.GetType() == pb.MsgHeartbeatResp && pre.State == raft.StateLeader {
		if hb := m.flightByID[c.Flight.Parent]; hb != nil && hb.M.GetType() == pb.MsgHeartbeat && hb.From == n.ID && hb.SenderInc == n.Inc {
			from := c.Flight.From
			if hb.CreatedStep > n.mon.hbAck[from] {
				n.mon.hbAck[from] = hb.CreatedStep
			}
		}
	}
	if c.Kind == "ready" || !m.allSafe {
		return
	}
	// answers produced in this touch
	var answered []string
	if len(post.ReadStates) > len(pre.ReadStates) {
		for _, rs := range post.ReadStates[len(pre.ReadStates):] {
			// only those produced as leader (followers get them via MsgReadIndexResp)
			if !(c.Kind == "deliver" && c.Flight.M.GetType() == pb.MsgReadIndexResp) {
				answered = append(answered, string(rs.RequestCtx))
			}
		}
	}
	if len(post.Msgs) > len(pre.Msgs) {
		for _, mm := range post.Msgs[len(pre.Msgs):] {
			if mm.GetType() == pb.MsgReadIndexResp && len(mm.GetEntries()) == 1 {
				answered = append(answered, string(mm.GetEntries()[0].GetData()))
			}
		}
	}
	if len(answered) == 0 {
		return
	}
	s.Stats.inc("read.leader_answers")
	if !m.On["C11"] {
		return
	}
	if pre.State != raft.StateLeader {
		m.viol([]string{"C11"}, "only_leader_answers", "c11.non_leader_answer",
			"node %d (state %v) produced read answers %v", n.ID, pre.State, answered)
		return
	}
	if t, ok := n.cachedTerm(post.Commit); !(ok && t == post.Term) && !(post.Commit+1 == post.FirstIndex && post.BaseTerm == post.Term) {
		m.viol([]string{"C11"}, "answer_after_own_term_commit", "c11.answer_before_own_term_commit",
			"leader %d (term %d) answered reads %v with commit %d whose entry has term %d", n.ID, post.Term, answered, post.Commit, t)
	}
	sole := len(post.Voters) == 1 && post.Voters[0] == n.ID && len(post.VotersOutgoing) == 0
	if sole {
		s.Stats.inc("read.sole_voter_answers")
		return
	}
	for _, ctx := range answered {
		r := m.reads[ctx]
		if r == nil {
			continue
		}
		recv, ok := r.recv[lk]
		if !ok {
			m.viol([]string{"C11"}, "answer_after_request", "c11.answer_without_request",
				"leader %d answered read %s it never received in this incarnation", n.ID, ctx)
			continue
		}
		heard := map[uint64]bool{n.ID: true}
		for p, cs := range n.mon.hbAck {
			if cs >= recv {
				heard[p] = true
			}
		}
		if !refmodel.HasMajority(post.Voters, heard) || !refmodel.HasMajority(post.VotersOutgoing, heard) {
			sig := "c11.answer_without_quorum"
			if !containsU64(post.Voters, n.ID) && len(post.Voters) == 1 && len(post.VotersOutgoing) == 0 {
				sig = "c11.answer_without_quorum/non_member_leader_single_voter"
			}
			props := []string{"C11"}
			if len(post.VotersOutgoing) > 0 {
				// C10: while a configuration is joint, majorities of both
				// voter sets are required - for confirming reads as well
				props = append(props, "C10")
			}
			m.viol(props, "answer_after_quorum_heard", sig,
				"leader %d (term %d, config %s) answered read %s (received at step %d) having heard since then only from %v",
				n.ID, post.Term, confOfState(post), ctx, recv, sortedU64(heard))
		}
	}
}

// ------------------------------------------------------------------ C16

func (m *Monitors) c16State(n *Node, pre, post *raft.VerifState, c *Cause) {
	if !m.On["C16"] {
		return
	}
	s := m.s
	if post.State != raft.StateLeader {
		return
	}
	if pre.State != raft.StateLeader || pre.Term != post.Term {
		n.mon.outstanding = map[uint64][]sentApp{}
		n.mon.snapPending = map[uint64]uint64{}
		n.mon.uwSum, n.mon.uwTerm, n.mon.uwApplied = 0, post.Term, post.Applied
	}
	// message-history form of "no appends while a snapshot is pending"
	// (independent of the Progress state machine): the pending mark is cleared
	// by what ends a snapshot transfer - its reported outcome, or a successful
	// append response from the follower.
	switch {
	case c.Kind == "reportsnap" && c.Msg != nil:
		delete(n.mon.snapPending, c.Msg.GetFrom())
	case c.Kind == "deliver" && c.Flight.M.GetType() == pb.MsgAppResp && !c.Flight.M.GetReject():
		delete(n.mon.snapPending, c.Flight.From)
	}
	for f := range n.mon.snapPending {
		pp := n.progressOf(post, f)
		if pp == nil || (c.Kind == "applyconf" && pp.State != tracker.StateSnapshot) {
			// removed from the configuration (or removed and re-added by one
			// change: a fresh progress record)
			delete(n.mon.snapPending, f)
		}
	}
	// new MsgApps created in this touch
	created := map[uint64][]*pb.Message{}
	if c.Kind != "ready" && len(post.Msgs) > len(pre.Msgs) {
		for _, mm := range post.Msgs[len(pre.Msgs):] {
			if mm.GetType() == pb.MsgApp {
				created[mm.GetTo()] = append(created[mm.GetTo()], mm)
			}
		}
	}
	if c.Kind != "ready" && len(post.Msgs) > len(pre.Msgs) {
		for _, mm := range post.Msgs[len(pre.Msgs):] {
			to := mm.GetTo()
			switch mm.GetType() {
			case pb.MsgApp:
				if si, pending := n.mon.snapPending[to]; pending {
					m.viol([]string{"C16", "C09"}, "no_append_during_snapshot", "c16.append_during_snapshot",
						"leader %d created a MsgApp (prev %d, %d entries) for %d although snapshot %d sent to it is still pending (no outcome reported, no successful append response)",
						n.ID, mm.GetIndex(), len(mm.GetEntries()), to, si)
				}
			case pb.MsgSnap:
				n.mon.snapPending[to] = mm.GetSnapshot().GetMetadata().GetIndex()
				s.Stats.inc("flow.snapshot_pending")
			}
		}
	}
	for i := range post.Progress {
		pp := &post.Progress[i]
		if pp.ID == n.ID {
			continue
		}
		var prePr *raft.VerifProgress
		if pre.State == raft.StateLeader && pre.Term == post.Term {
			prePr = n.progressOf(pre, pp.ID)
		}
		// oracle 3: no appends while a snapshot is pending
		if prePr != nil && prePr.State == tracker.StateSnapshot && pp.State == tracker.StateSnapshot && len(created[pp.ID]) > 0 {
			m.viol([]string{"C16", "C09"}, "no_append_during_snapshot", "c16.append_during_snapshot",
				"leader %d created %d MsgApp for %d while its progress is StateSnapshot", n.ID, len(created[pp.ID]), pp.ID)
		}
		if pp.State != tracker.StateReplicate {
			delete(n.mon.outstanding, pp.ID)
			continue
		}
		if prePr == nil || prePr.State != tracker.StateReplicate {
			// entered StateReplicate in this touch: new epoch
			n.mon.outstanding[pp.ID] = nil
		}
		for _, mm := range created[pp.ID] {
			if len(mm.GetEntries()) == 0 {
				continue
			}
			var b uint64
			for _, e := range mm.GetEntries() {
				b += uint64(len(e.GetData()))
			}
			n.mon.outstanding[pp.ID] = append(n.mon.outstanding[pp.ID], sentApp{last: mm.GetEntries()[len(mm.GetEntries())-1].GetIndex(), bytes: b})
		}
		// drop acknowledged
		out := n.mon.outstanding[pp.ID]
		k := 0
		for _, sa := range out {
			if sa.last > pp.Match {
				out[k] = sa
				k++
			}
		}
		out = out[:k]
		n.mon.outstanding[pp.ID] = out
		if len(out) > n.Opts.MaxInflightMsgs {
			m.viol([]string{"C16"}, "inflight_count_limit", "c16.too_many_inflight",
				"leader %d has %d entry-bearing appends outstanding to %d (match %d), MaxInflightMsgs=%d", n.ID, len(out), pp.ID, pp.Match, n.Opts.MaxInflightMsgs)
		}
		if len(out) == n.Opts.MaxInflightMsgs {
			s.Stats.inc("flow.window_full")
		}
		if mb := n.Opts.MaxInflightBytes; mb != 0 && len(out) > 1 {
			var sum uint64
			for _, sa := range out[:len(out)-1] {
				sum += sa.bytes
			}
			if sum >= mb {
				m.viol([]string{"C16"}, "inflight_bytes_limit", "c16.too_many_inflight_bytes",
					"leader %d has %d bytes outstanding to %d before the newest message, MaxInflightBytes=%d", n.ID, sum, pp.ID, mb)
			}
		}
	}
	// oracle 4: uncommitted size window
	// The window ends with the leadership and whenever an apply
	// acknowledgement is processed: raft subtracts the payload of the
	// acknowledged entries from its estimate even if they were appended
	// before this leadership or lie at or below the applied index already (a
	// lagging apply thread) - the estimate "may underestimate" by design
	// (comment on reduceUncommittedSize), so only a span without any apply
	// acknowledgement is one in which "the log cannot advance".
	applyAck := false
	switch c.Kind {
	case "advance":
		for _, a := range pre.StepsOnAdvance {
			if a != nil && a.GetType() == pb.MsgStorageApplyResp && len(a.GetEntries()) > 0 {
				applyAck = true
			}
		}
	case "self":
		applyAck = c.Msg != nil && c.Msg.GetType() == pb.MsgStorageApplyResp && len(c.Msg.GetEntries()) > 0
	}
	if n.mon.uwTerm != post.Term || n.mon.uwApplied != post.Applied || applyAck {
		n.mon.uwSum, n.mon.uwFirst, n.mon.uwTerm, n.mon.uwApplied = 0, 0, post.Term, post.Applied
	}
	if c.Kind == "propose" || (c.Kind == "deliver" && c.Flight.M.GetType() == pb.MsgProp) {
		if pre.State == raft.StateLeader && pre.Term == post.Term && pre.Applied == post.Applied {
			var sz uint64
			appended := post.LastIndex - pre.LastIndex
			var appendedBytes uint64
			for j := pre.LastIndex + 1; j <= post.LastIndex; j++ {
				if e := n.cachedEntry(j); e != nil {
					appendedBytes += uint64(len(e.GetData()))
				}
			}
			sz = appendedBytes
			lim := n.Opts.MaxUncommittedEntriesSize
			if lim != 0 && appended > 0 && sz > 0 {
				if n.mon.uwSum > 0 && n.mon.uwSum+sz > lim {
					m.viol([]string{"C16"}, "uncommitted_size_limit", "c16.uncommitted_over_limit",
						"leader %d accepted %d more payload bytes with %d already accepted in this window, MaxUncommittedEntriesSize=%d", n.ID, sz, n.mon.uwSum, lim)
				}
				if n.mon.uwSum == 0 {
					n.mon.uwFirst = sz
				}
				n.mon.uwSum += sz
			}
		}
	}
}

// ------------------------------------------------------------------ C17

func (m *Monitors) c17State(n *Node, pre, post *raft.VerifState, c *Cause) {
	s := m.s
	// follower side: remember when we last heard from the current leader
	if c.Kind == "deliver" {
		msg := c.Flight.M
		switch msg.GetType() {
		case pb.MsgApp, pb.MsgHeartbeat, pb.MsgSnap:
			if msg.GetTerm() == post.Term && post.Lead == msg.GetFrom() && post.State == raft.StateFollower {
				n.mon.heardTerm, n.mon.heardLead, n.mon.heardTick, n.mon.heardValid = post.Term, post.Lead, n.Ticks, true
			}
		}
		if pre.State == raft.StateLeader {
			n.mon.peerHeard[msg.GetFrom()] = n.Ticks
		}
	}
	if c.Kind == "transfer" {
		n.mon.lastTransferTick = n.Ticks
	}
	if c.Kind == "deliver" && c.Flight.M.GetType() == pb.MsgTransferLeader {
		n.mon.lastTransferTick = n.Ticks
	}
	if c.Kind == "applyconf" {
		n.mon.lastConfTick = n.Ticks
	}
	// oracle 1: PreVote gate
	campaigned := post.Term > pre.Term && post.Vote == n.ID && (post.State == raft.StateCandidate || post.State == raft.StateLeader) && c.Kind != "start"
	if campaigned {
		s.Stats.inc("campaign.real")
		forced := c.Kind == "deliver" && c.Flight.M.GetType() == pb.MsgTimeoutNow
		if forced {
			s.Stats.inc("campaign.forced_by_transfer")
		}
		if n.Opts.PreVote && m.On["C17"] && !forced {
			g := m.pregrants[[3]uint64{n.ID, uint64(n.Inc), post.Term}]
			if !refmodel.HasMajority(post.Voters, g) || !refmodel.HasMajority(post.VotersOutgoing, g) {
				m.viol([]string{"C17"}, "prevote_gate", "c17.campaign_without_prevotes",
					"node %d (PreVote) raised its term to %d and campaigns (cause %s) with pre-vote grants only from %v, config %s",
					n.ID, post.Term, c.Kind, sortedU64(g), confOfState(post))
			}
		}
		if n.Opts.PreVote && !forced {
			s.Stats.inc("campaign.after_prevote")
		}
	}
	// oracle 1b: with PreVote every other term raise is the adoption of a
	// term seen in a delivered message; in particular becoming a
	// pre-candidate leaves the term alone (HardState.Term transitions vs.
	// received traffic).
	if m.On["C17"] && n.Opts.PreVote && post.Term > pre.Term && !campaigned && c.Kind != "start" {
		adopted := c.Kind == "deliver" && c.Flight.M.GetTerm() >= post.Term
		if !adopted {
			m.viol([]string{"C17"}, "prevote_gate", "c17.term_raised_without_campaign",
				"node %d (PreVote, %s) raised its term %d -> %d on %s without campaigning and without a message of that term", n.ID, post.State, pre.Term, post.Term, c.Kind)
		}
	}
	// oracle 4: CheckQuorum leader steps down
	if m.On["C17"] && n.Opts.CheckQuorum && c.Kind == "tick" && post.State == raft.StateLeader && pre.State == raft.StateLeader && pre.Term == post.Term {
		span := 2 * n.Opts.ElectionTick
		since := n.Ticks - span
		if n.mon.leaderSince <= since && n.mon.lastTransferTick <= since && n.mon.lastConfTick <= since {
			heard := map[uint64]bool{n.ID: true}
			for p, tk := range n.mon.peerHeard {
				if tk > since {
					heard[p] = true
				}
			}
			if !refmodel.HasMajority(post.Voters, heard) || !refmodel.HasMajority(post.VotersOutgoing, heard) {
				m.viol([]string{"C17"}, "checkquorum_stepdown", "c17.leader_without_quorum_stays",
					"CheckQuorum leader %d (term %d, config %s) is still leader after %d own ticks in which it heard only from %v",
					n.ID, post.Term, confOfState(post), span, sortedU64(heard))
			}
		}
	}
	if pre.State == raft.StateLeader && post.State != raft.StateLeader && pre.Term == post.Term && c.Kind == "tick" {
		s.Stats.inc("leader.checkquorum_stepdown")
	}
}

// c17VoteRequest: oracles 2 and 3 on delivery of MsgVote/MsgPreVote.
func (m *Monitors) c17VoteRequest(n *Node, pre, post *raft.VerifState, req *pb.Message, newAfter []*pb.Message) {
	s := m.s
	if req.GetType() == pb.MsgPreVote {
		s.Stats.inc("prevote.request_delivered")
		if m.On["C17"] && (post.Term != pre.Term || post.Vote != pre.Vote) {
			m.viol([]string{"C17"}, "prevote_changes_nothing", "c17.prevote_changed_state",
				"node %d: MsgPreVote from %d changed (term,vote) (%d,%d) -> (%d,%d)", n.ID, req.GetFrom(), pre.Term, pre.Vote, post.Term, post.Vote)
		}
	}
	if !n.Opts.CheckQuorum || req.GetTerm() < pre.Term {
		return
	}
	sameTerm := req.GetTerm() == pre.Term
	if sameTerm && pre.Vote == req.GetFrom() {
		// the repetition of a vote this node already cast in this term (it
		// voted for the sender, another node won the term): answering the
		// duplicate again grants nothing new
		s.Stats.inc("lease.repeat_of_cast_vote")
		return
	}
	forced := bytes.Equal(req.GetContext(), []byte("CampaignTransfer"))
	inLease := pre.State == raft.StateFollower && pre.Lead != 0 && pre.Lead != n.ID && n.mon.heardValid &&
		n.mon.heardTerm == pre.Term && n.mon.heardLead == pre.Lead && n.Ticks-n.mon.heardTick < n.Opts.ElectionTick
	if forced || !inLease {
		if !forced {
			s.Stats.inc("lease.vote_request_outside_lease")
		}
		return
	}
	s.Stats.inc("lease.vote_request_inside_lease")
	if sameTerm {
		s.Stats.inc("lease.vote_request_inside_lease_same_term")
	}
	if !m.On["C17"] {
		return
	}
	granted := false
	for _, r := range newAfter {
		if (r.GetType() == pb.MsgVoteResp || r.GetType() == pb.MsgPreVoteResp) && !r.GetReject() && r.GetTo() == req.GetFrom() {
			granted = true
		}
	}
	if post.Term != pre.Term || granted {
		m.viol([]string{"C17"}, "lease_protects_leader", "c17.lease_broken",
			"node %d follows leader %d (heard %d ticks ago, election timeout %d) yet %s from %d: term %d -> %d, granted=%v",
			n.ID, pre.Lead, n.Ticks-n.mon.heardTick, n.Opts.ElectionTick, req.GetType(), req.GetFrom(), pre.Term, post.Term, granted)
	}
}

func sortedKeys(m map[string]bool) []string {
	var out []string
	for k := range m {
		out = append(out, k)
	}
	sort.Strings(out)
	return out
}
