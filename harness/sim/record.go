package sim

import (
	"fmt"
	"strings"

	"google.golang.org/protobuf/proto"

	"go.etcd.io/raft/v3"
	pb "go.etcd.io/raft/v3/raftpb"
)

// RecordingDrawer records every drawn value so that a case can be replayed.
type RecordingDrawer struct {
	D    Drawer
	Vals []int
}

func (r *RecordingDrawer) Int(lo, hi int, label string) int {
	v := r.D.Int(lo, hi, label)
	r.Vals = append(r.Vals, v)
	return v
}

// ReplayDrawer replays recorded values. If the replayed run asks for a value
// outside the recorded one's range, or for more values than recorded, the run
// has diverged from the recording.
type ReplayDrawer struct {
	Vals     []int
	pos      int
	Diverged string
}

func (r *ReplayDrawer) Int(lo, hi int, label string) int {
	if hi <= lo {
		// RapidDrawer does not draw (and the recorder records lo) either
		if r.pos < len(r.Vals) {
			r.pos++
		}
		return lo
	}
	if r.pos >= len(r.Vals) {
		if r.Diverged == "" {
			r.Diverged = fmt.Sprintf("draw #%d (%s): recording exhausted", r.pos, label)
		}
		return lo
	}
	v := r.Vals[r.pos]
	r.pos++
	if v < lo || v > hi {
		if r.Diverged == "" {
			r.Diverged = fmt.Sprintf("draw #%d (%s): recorded value %d outside [%d,%d]", r.pos-1, label, v, lo, hi)
		}
		return lo
	}
	return v
}

// OutEvent is one observable output of a node (C19).
type OutEvent struct {
	Step   int
	Node   uint64
	Kind   string
	Digest uint64
	Desc   string
}

var detMarshal = proto.MarshalOptions{Deterministic: true}

func mustMarshal(m proto.Message) []byte {
	b, err := detMarshal.Marshal(m)
	if err != nil {
		panic(err)
	}
	return b
}

// readyDigest is a canonical digest of everything a Ready contains, field by
// field in emission order.
func readyDigest(rd *raft.Ready) (uint64, string) {
	var parts [][]byte
	var desc strings.Builder
	if rd.SoftState != nil {
		parts = append(parts, []byte(fmt.Sprintf("soft:%d:%d", rd.SoftState.Lead, rd.SoftState.RaftState)))
		fmt.Fprintf(&desc, "soft(lead %d %v) ", rd.SoftState.Lead, rd.SoftState.RaftState)
	}
	if !raft.IsEmptyHardState(rd.HardState) {
		parts = append(parts, []byte("hs"), mustMarshal(rd.HardState))
		fmt.Fprintf(&desc, "hs(%d,%d,%d) ", rd.HardState.GetTerm(), rd.HardState.GetVote(), rd.HardState.GetCommit())
	}
	for _, rs := range rd.ReadStates {
		parts = append(parts, []byte(fmt.Sprintf("rs:%d", rs.Index)), rs.RequestCtx)
	}
	if len(rd.ReadStates) > 0 {
		fmt.Fprintf(&desc, "reads=%d ", len(rd.ReadStates))
	}
	for _, e := range rd.Entries {
		parts = append(parts, []byte("e"), mustMarshal(e))
	}
	if !raft.IsEmptySnap(rd.Snapshot) {
		parts = append(parts, []byte("snap"), mustMarshal(rd.Snapshot))
		fmt.Fprintf(&desc, "snap(%d) ", rd.Snapshot.GetMetadata().GetIndex())
	}
	for _, e := range rd.CommittedEntries {
		parts = append(parts, []byte("c"), mustMarshal(e))
	}
	fmt.Fprintf(&desc, "ents=%d committed=%d msgs=[", len(rd.Entries), len(rd.CommittedEntries))
	for _, m := range rd.Messages {
		parts = append(parts, []byte("m"), mustMarshal(m))
		fmt.Fprintf(&desc, "%s->%d ", shortType(m.GetType()), m.GetTo())
	}
	desc.WriteString("]")
	if rd.MustSync {
		parts = append(parts, []byte("sync"))
	}
	return hashBytes(parts...), desc.String()
}

func shortType(t pb.MessageType) string { return strings.TrimPrefix(t.String(), "Msg") }

func (s *Sim) recordReady(n *Node, rd *raft.Ready) {
	if !s.OutOn {
		return
	}
	d, desc := readyDigest(rd)
	s.Out = append(s.Out, OutEvent{Step: s.Step, Node: n.ID, Kind: "ready", Digest: d, Desc: desc})
}

func (s *Sim) recordState(n *Node, st *raft.VerifState, kind string, err error) {
	if !s.OutOn {
		return
	}
	d := hashBytes([]byte(fmt.Sprintf("%d|%d|%d|%d|%d|%d|%d|%d|%d|%v", st.Term, st.Vote, st.Commit, st.Lead, st.State, st.LastIndex, st.Applied,
		len(st.Msgs), len(st.MsgsAfterAppend), err)))
	s.Out = append(s.Out, OutEvent{Step: s.Step, Node: n.ID, Kind: kind, Digest: d})
}

// CompareOut returns "" if both output traces are identical, else a
// description of the first difference.
func CompareOut(a, b []OutEvent) string {
	for i := 0; i < len(a) && i < len(b); i++ {
		if a[i].Step != b[i].Step || a[i].Node != b[i].Node || a[i].Kind != b[i].Kind || a[i].Digest != b[i].Digest {
			return fmt.Sprintf("output #%d differs: run A step %d node %d %s {%s}, run B step %d node %d %s {%s}",
				i, a[i].Step, a[i].Node, a[i].Kind, a[i].Desc, b[i].Step, b[i].Node, b[i].Kind, b[i].Desc)
		}
	}
	if len(a) != len(b) {
		return fmt.Sprintf("run A produced %d outputs, run B %d", len(a), len(b))
	}
	return ""
}

// OutDigest folds a whole output trace.
func OutDigest(a []OutEvent) uint64 {
	h := uint64(1469598103934665603)
	for _, e := range a {
		h = hashBytes(u64b(h), u64b(uint64(e.Step)), u64b(e.Node), []byte(e.Kind), u64b(e.Digest))
	}
	return h
}
