package sim

import (
	pb "go.etcd.io/raft/v3/raftpb"
)

// Flight is one message in the network pool.
type Flight struct {
	ID        int
	M         *pb.Message
	From, To  uint64
	SenderInc int
	SentStep  int
	// CreatedStep is the step at which raft created the message (it may be
	// handed to the network later, after persistence).
	CreatedStep int
	// Parent is the flight whose delivery made the sender create this
	// message (0 if none/unknown).
	Parent int
	// Held flights are not delivered until released (a message stuck in a
	// slow stream, e.g. a snapshot).
	Held bool
	// Deliveries counts how often it was delivered (duplicates).
	Deliveries int
	// AckTerm is, for a non-reject MsgAppResp, the term the sender's log had
	// at the acknowledged index when the message was created.
	AckTerm  uint64
	AckKnown bool
}

// SnapOwed is a ReportSnapshot obligation of the harness towards a leader.
type SnapOwed struct {
	Leader    uint64
	LeaderInc int
	To        uint64
	Delivered bool // at least one copy was delivered
}

// Net is the in-flight pool plus link state. It never invents or edits a
// message: it only delivers (possibly late, duplicated, reordered) or drops
// messages that nodes handed to it.
type Net struct {
	s       *Sim
	Pool    []*Flight
	nextID  int
	Blocked map[[2]uint64]bool
	Owed    []*SnapOwed
	// parent/created bookkeeping for not yet released messages, keyed by
	// message pointer (raft hands out the same pointers it queued).
	meta map[*pb.Message]msgMeta

	MaxPool int
	// Recent holds the last few delivered flights (for back-to-back
	// duplicates).
	Recent []*Flight
}

type msgMeta struct {
	parent   int
	created  int
	ackTerm  uint64
	ackKnown bool
}

func newNet(s *Sim) *Net {
	return &Net{s: s, Blocked: map[[2]uint64]bool{}, meta: map[*pb.Message]msgMeta{}, MaxPool: 256}
}

// noteCreated records creation step/parent of messages raft queued during a
// touch.
func (nt *Net) noteCreated(ms []*pb.Message, parent int) {
	for _, m := range ms {
		if _, ok := nt.meta[m]; !ok {
			nt.meta[m] = msgMeta{parent: parent, created: nt.s.Step}
		}
	}
}

// send hands a message to the network (orig is the pointer raft gave us).
func (nt *Net) send(n *Node, orig *pb.Message) *Flight {
	nt.nextID++
	mm, ok := nt.meta[orig]
	if !ok {
		mm = msgMeta{created: nt.s.Step}
	}
	delete(nt.meta, orig)
	f := &Flight{ID: nt.nextID, M: wire(orig), From: n.ID, To: orig.GetTo(), SenderInc: n.Inc,
		SentStep: nt.s.Step, CreatedStep: mm.created, Parent: mm.parent, AckTerm: mm.ackTerm, AckKnown: mm.ackKnown}
	nt.Pool = append(nt.Pool, f)
	if f.M.GetType() == pb.MsgSnap {
		nt.Owed = append(nt.Owed, &SnapOwed{Leader: n.ID, LeaderInc: n.Inc, To: f.To})
	}
	if len(nt.Pool) > nt.MaxPool {
		// drop the oldest (a loss)
		old := nt.Pool[0]
		nt.Pool = nt.Pool[1:]
		nt.s.Stats.inc("net.overflow_drop")
		_ = old
	}
	return f
}

func (nt *Net) blocked(from, to uint64) bool { return nt.Blocked[[2]uint64{from, to}] }

// deliverable returns the indexes into Pool of flights that can be delivered.
func (nt *Net) deliverable() []int {
	var out []int
	for i, f := range nt.Pool {
		if f.Held || nt.blocked(f.From, f.To) {
			continue
		}
		n := nt.s.Nodes[f.To]
		if n == nil || !n.Up {
			continue
		}
		out = append(out, i)
	}
	return out
}

func (nt *Net) remove(i int) *Flight {
	f := nt.Pool[i]
	nt.Pool = append(nt.Pool[:i:i], nt.Pool[i+1:]...)
	return f
}

func (nt *Net) markSnapDelivered(f *Flight) {
	for _, o := range nt.Owed {
		if o.Leader == f.From && o.LeaderInc == f.SenderInc && o.To == f.To {
			o.Delivered = true
		}
	}
}

// gc drops flights addressed to ids that do not exist.
func (nt *Net) gc() {
	out := nt.Pool[:0]
	for _, f := range nt.Pool {
		if nt.s.Nodes[f.To] != nil {
			out = append(out, f)
		}
	}
	nt.Pool = out
}
