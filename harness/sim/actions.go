package sim

import (
	"errors"
	"fmt"

	"google.golang.org/protobuf/proto"

	"go.etcd.io/raft/v3"
	pb "go.etcd.io/raft/v3/raftpb"
)

func (s *Sim) begin(format string, a ...any) {
	s.Step++
	line := fmt.Sprintf(format, a...)
	s.Stats.mix(line)
	if s.TraceOn {
		s.Trace = append(s.Trace, fmt.Sprintf("%4d ", s.Step)+line)
	}
}

// ---------------------------------------------------------------- ticks

func (s *Sim) Tick(n *Node) {
	s.begin("Tick(%d)", n.ID)
	s.tick(n)
}

func (s *Sim) tick(n *Node) {
	if !n.Up {
		return
	}
	n.RN.VerifSetRandomizedElectionTimeout(n.Opts.Timeout)
	n.Ticks++
	s.touch(n, &Cause{Kind: "tick"}, func() { n.RN.Tick() })
}

// ---------------------------------------------------------------- network

// Deliver delivers pool[idx]; if dup, a copy stays in the pool.
func (s *Sim) Deliver(idx int, dup bool) {
	f := s.Net.Pool[idx]
	s.begin("Deliver(#%d%s %s)", f.ID, map[bool]string{true: " dup", false: ""}[dup], shortMsg(f.M))
	if !dup {
		s.Net.remove(idx)
	} else {
		s.Stats.inc("net.dup")
	}
	s.deliver(f)
}

// Redeliver delivers a recently delivered flight once more (a network
// duplicate arriving right behind the original).
func (s *Sim) Redeliver(f *Flight) {
	s.begin("Redeliver(#%d %s)", f.ID, shortMsg(f.M))
	s.Stats.inc("net.dup")
	s.Stats.inc("net.dup_recent")
	s.deliver(f)
}

func (s *Sim) deliver(f *Flight) {
	n := s.Nodes[f.To]
	if n == nil || !n.Up {
		return
	}
	if len(s.Net.Recent) == 0 || s.Net.Recent[len(s.Net.Recent)-1] != f {
		s.Net.Recent = append(s.Net.Recent, f)
		if len(s.Net.Recent) > 4 {
			s.Net.Recent = s.Net.Recent[1:]
		}
	}
	f.Deliveries++
	s.deliveries++
	if f.M.GetType() == pb.MsgSnap {
		s.Net.markSnapDelivered(f)
	}
	m := cloneMsg(f.M)
	c := &Cause{Kind: "deliver", Flight: f, Msg: m}
	s.Mon.beforeDeliver(n, f)
	if s.touch(n, c, func() { c.Err = n.RN.Step(m) }) {
		s.Mon.onDelivered(n, f, c.Err)
	}
	if n.Up && n.Opts.Async && f.M.GetType() == pb.MsgSnap && n.RN.HasReady() {
		// Contract choice (DESIGN section 3): an application with an
		// asynchronous apply thread takes the Ready right after stepping a
		// MsgSnap, so that it learns about an accepted snapshot before its
		// apply thread calls ApplyConfChange for older, now superseded
		// entries (raft switches to the snapshot's configuration at Step
		// time; an old conf change applied on top of it would corrupt it).
		s.takeReadyAsync(n)
	}
}

func (s *Sim) Drop(idx int) {
	f := s.Net.remove(idx)
	s.begin("Drop(#%d %s)", f.ID, shortMsg(f.M))
	s.Stats.inc("net.drop")
}

func (s *Sim) Isolate(n *Node) {
	s.begin("Isolate(%d)", n.ID)
	for _, id := range s.IDs {
		if id != n.ID {
			s.Net.Blocked[[2]uint64{id, n.ID}] = true
			s.Net.Blocked[[2]uint64{n.ID, id}] = true
		}
	}
	s.Stats.inc("net.isolate")
}

func (s *Sim) BlockLink(a, b uint64) {
	s.begin("Block(%d->%d)", a, b)
	s.Net.Blocked[[2]uint64{a, b}] = true
}

func (s *Sim) Heal() {
	s.begin("Heal")
	s.Net.Blocked = map[[2]uint64]bool{}
}

// ReleaseAll releases every held flight.
func (s *Sim) ReleaseAll() {
	for _, f := range s.Net.Pool {
		f.Held = false
	}
}

// ReportSnap discharges a ReportSnapshot obligation.
func (s *Sim) ReportSnap(k int, failure bool) {
	o := s.Net.Owed[k]
	s.Net.Owed = append(s.Net.Owed[:k:k], s.Net.Owed[k+1:]...)
	st := raft.SnapshotFinish
	if failure || !o.Delivered {
		st = raft.SnapshotFailure
	}
	s.begin("ReportSnapshot(leader=%d to=%d status=%d)", o.Leader, o.To, st)
	n := s.Nodes[o.Leader]
	if !n.Up || n.Inc != o.LeaderInc {
		return // the leader incarnation that sent it is gone
	}
	s.touch(n, &Cause{Kind: "reportsnap", Msg: &pb.Message{From: new(o.To), Reject: new(st == raft.SnapshotFailure)}}, func() { n.RN.ReportSnapshot(o.To, st) })
}

// ---------------------------------------------------------------- sync Ready

func (s *Sim) hasWork(n *Node) bool {
	if !n.Up {
		return false
	}
	if n.Opts.Async {
		return n.RN.HasReady() || (len(n.AppendQ) > 0 && !n.SlowAppend) || (len(n.ApplyQ) > 0 && !n.SlowApply) || (len(n.SelfQ[0]) > 0 && !n.SlowAck) || len(n.SelfQ[1]) > 0
	}
	return n.Phase != PhaseIdle || n.RN.HasReady()
}

func (s *Sim) TakeReady(n *Node) {
	s.begin("Ready(%d)", n.ID)
	s.takeReady(n)
}

func (s *Sim) takeReady(n *Node) {
	if n.Opts.Async {
		s.takeReadyAsync(n)
		return
	}
	if n.Phase != PhaseIdle {
		s.harnessBug("Ready while previous Ready not advanced")
	}
	var rd raft.Ready
	if !s.touch(n, &Cause{Kind: "ready"}, func() { rd = n.RN.Ready() }) {
		return
	}
	n.Rd = rd
	n.Phase, n.Sent, n.Applied = PhaseTaken, false, false
	s.Mon.onReady(n, &rd)
}

func hsOf(rd *raft.Ready) *pb.HardState {
	if raft.IsEmptyHardState(rd.HardState) {
		return nil
	}
	return rd.HardState
}

// PersistEntries is Ready sub-step R1 (or the whole atomic write when the
// Ready carries a snapshot).
func (s *Sim) PersistEntries(n *Node) {
	s.begin("PersistEntries(%d)", n.ID)
	s.persistEntries(n)
}

func (s *Sim) persistEntries(n *Node) {
	rd := &n.Rd
	if !raft.IsEmptySnap(rd.Snapshot) {
		if !s.writeAtomic(n, rd.Snapshot, rd.Entries, hsOf(rd), true) {
			return
		}
		n.Phase = PhasePersisted
		return
	}
	if n.BootMember && n.Disk.HS == nil && hsOf(rd) != nil {
		// The first write of a node started through Bootstrap(peers) carries
		// the bootstrap entries and the hard state that commits them; a node
		// that kept the entries but lost that hard state could never apply
		// its own membership (and Bootstrap refuses a non-empty storage), so
		// the application must make this write atomic.
		if s.writeAtomic(n, nil, rd.Entries, hsOf(rd), true) {
			n.Phase = PhasePersisted
		}
		return
	}
	if !s.writeEntries(n, rd.Entries) {
		return
	}
	if rd.MustSync {
		// storage is prefix-durable (a WAL): an fsync covers earlier writes
		n.Disk.syncAll()
	}
	if hsOf(rd) == nil {
		n.Phase = PhasePersisted
	} else {
		n.Phase = PhaseEntries
	}
}

func (s *Sim) PersistHS(n *Node, sync bool) {
	s.begin("PersistHS(%d sync=%v)", n.ID, sync)
	s.persistHS(n, sync)
}

func (s *Sim) persistHS(n *Node, sync bool) {
	rd := &n.Rd
	if hs := hsOf(rd); hs != nil {
		s.writeHS(n, hs, rd.MustSync || sync)
	}
	n.Phase = PhasePersisted
}

func (s *Sim) writeEntries(n *Node, ents []*pb.Entry) bool {
	if len(ents) == 0 {
		return true
	}
	cl := cloneEnts(ents)
	if !s.guard(n, "MemoryStorage.Append", func() {
		if err := n.Disk.MS.Append(cl); err != nil {
			panic(err)
		}
	}) {
		return false
	}
	s.Mon.onPersistEntries(n, cl)
	return true
}

func (s *Sim) writeHS(n *Node, hs *pb.HardState, synced bool) {
	s.Mon.onPersistHS(n, hs)
	n.Disk.setHardState(hs, synced)
	if !synced {
		s.Stats.inc("disk.unsynced_hs")
	}
}

// writeAtomic persists {snapshot, entries, hard state} as one atomic write
// and restores the state machine from the snapshot.
func (s *Sim) writeAtomic(n *Node, snap *pb.Snapshot, ents []*pb.Entry, hs *pb.HardState, synced bool) bool {
	if !raft.IsEmptySnap(snap) {
		s.Mon.onPersistSnapshot(n, snap)
		var err error
		if !s.guard(n, "MemoryStorage.ApplySnapshot", func() { err = n.Disk.MS.ApplySnapshot(cloneSnap(snap)) }) {
			return false
		}
		if err != nil {
			// raft handed us a snapshot older than the one already stored.
			s.violate("C09", "persist_snapshot_out_of_date", "c09.snap_out_of_date",
				"node %d: snapshot (%d,%d) handed for persistence but storage already has snapshot at %d",
				n.ID, snap.GetMetadata().GetIndex(), snap.GetMetadata().GetTerm(), n.Disk.snapIndex())
			return true
		}
		s.Stats.inc("snap.installed")
		// the storage now starts exactly at the snapshot (C09: the snapshot's
		// index and term are the node's new log base; C18: ApplySnapshot)
		si, st := snap.GetMetadata().GetIndex(), snap.GetMetadata().GetTerm()
		if t, ok := n.Disk.termAt(si); n.Disk.first() != si+1 || n.Disk.last() != si || !ok || t != st {
			s.Mon.viol([]string{"C09", "C18"}, "storage_starts_at_snapshot", "c09.storage_not_reset_by_snapshot",
				"node %d: after ApplySnapshot(%d,%d) the storage spans [%d,%d] with term %d (known=%v) at the snapshot index",
				n.ID, si, st, n.Disk.first(), n.Disk.last(), t, ok)
		}
		n.SM.reset(snap.GetMetadata().GetIndex(), leU64(snap.GetData()), confFromCS(snap.GetMetadata().GetConfState()))
		n.SM.DurableApplied = snap.GetMetadata().GetIndex()
	}
	if !s.writeEntries(n, ents) {
		return false
	}
	if hs != nil {
		s.writeHS(n, hs, synced)
	}
	if synced {
		// storage is prefix-durable (a WAL): an fsync covers earlier writes
		n.Disk.syncAll()
	}
	return true
}

func (s *Sim) SendMsgs(n *Node) {
	s.begin("Send(%d)", n.ID)
	s.sendMsgs(n)
}

func (s *Sim) sendMsgs(n *Node) {
	for _, m := range n.Rd.Messages {
		s.release(n, m)
	}
	n.Sent = true
}

// release hands one message to the network (monitors check promises here).
func (s *Sim) release(n *Node, m *pb.Message) {
	f := s.Net.send(n, m)
	s.Mon.onRelease(n, f)
	if s.TraceOn {
		s.tracef("    send #%d %s", f.ID, shortMsg(f.M))
	}
}

func (s *Sim) ApplyCommitted(n *Node) {
	s.begin("Apply(%d)", n.ID)
	s.applyCommitted(n)
}

func (s *Sim) applyCommitted(n *Node) {
	s.applyEntries(n, n.Rd.CommittedEntries)
	if n.Up {
		n.Applied = true
	}
}

func (s *Sim) Advance(n *Node) {
	s.begin("Advance(%d)", n.ID)
	s.advance(n)
}

func (s *Sim) advance(n *Node) {
	if n.Phase != PhasePersisted || !n.Sent || !n.Applied {
		s.harnessBug("Advance before Ready fully handled")
	}
	rd := n.Rd
	n.Phase = PhaseIdle
	n.Rd = raft.Ready{}
	s.touch(n, &Cause{Kind: "advance"}, func() { n.RN.Advance(rd) })
}

// applyEntries applies a batch to the state machine, calling ApplyConfChange
// for conf changes the application's own model accepts.
func (s *Sim) applyEntries(n *Node, ents []*pb.Entry) {
	if len(ents) == 0 {
		return
	}
	s.Mon.onApplyBatch(n, ents)
	for _, e := range ents {
		if !n.Up {
			return
		}
		idx := e.GetIndex()
		if idx <= n.SM.Applied || idx <= n.SnapFloor {
			// an old batch processed after a snapshot install (async apply
			// thread); the state machine already covers it.
			s.Stats.inc("apply.skipped_old")
			continue
		}
		if idx != n.SM.Applied+1 {
			// a committed entry was dropped from the sequence handed to this node
			s.Mon.viol([]string{"C01", "C08"}, "applied_sequence_gapless", "c01.sequence_gap",
				"node %d is handed entry %d for application right after %d: entries in between were dropped from its committed sequence", n.ID, idx, n.SM.Applied)
			panic(endCase{"state machine gap"})
		}
		if isConfEntry(e) {
			cci, v2, err := decodeCC(e)
			if err != nil {
				s.harnessBug("undecodable conf change at %d: %v", idx, err)
			}
			next, merr := n.SM.Conf.Apply(v2)
			if merr == nil && s.reusesRetiredID(n.SM.Conf, next, idx) {
				merr = errors.New("the change brings back an id that was removed from the group before")
			}
			if merr != nil {
				s.Stats.inc("conf.rejected_by_app")
				s.tracef("    node %d: app rejects conf change at %d (%v)", n.ID, idx, merr)
			} else {
				var cs *pb.ConfState
				if !s.touch(n, &Cause{Kind: "applyconf", Msg: &pb.Message{Index: new(idx)}}, func() { cs = n.RN.ApplyConfChange(cci) }) {
					return
				}
				if len(n.SM.Conf.Voters) == 2 {
					for v := range n.SM.Conf.Voters {
						if !next.Voters[v] {
							// README: removing/demoting a voter of a two-voter
							// set is the documented liveness exception
							s.Stats.inc("conf.two_voter_shrink")
						}
					}
				}
				n.SM.Conf = next
				s.Stats.inc("conf.applied")
				s.Mon.onConfApplied(n, e, cs)
			}
		}
		n.SM.Hash = chainHash(n.SM.Hash, e)
		n.SM.Applied = idx
		n.SM.record()
	}
	s.Mon.afterApply(n)
}

// ---------------------------------------------------------------- async

func (s *Sim) takeReadyAsync(n *Node) {
	var rd raft.Ready
	if !s.touch(n, &Cause{Kind: "ready"}, func() { rd = n.RN.Ready() }) {
		return
	}
	s.Mon.onReady(n, &rd)
	for _, m := range rd.Messages {
		switch m.GetTo() {
		case raft.LocalAppendThread:
			if sn := m.GetSnapshot(); sn != nil && sn.GetMetadata().GetIndex() > n.SnapFloor {
				n.SnapFloor = sn.GetMetadata().GetIndex()
			}
			n.AppendQ = append(n.AppendQ, m)
		case raft.LocalApplyThread:
			n.ApplyQ = append(n.ApplyQ, m)
		default:
			s.release(n, m)
		}
	}
}

func appendMsgHS(m *pb.Message) *pb.HardState {
	if m.Term == nil && m.Vote == nil && m.Commit == nil {
		return nil
	}
	return &pb.HardState{Term: new(m.GetTerm()), Vote: new(m.GetVote()), Commit: new(m.GetCommit())}
}

func (s *Sim) AppendStep(n *Node, sync bool) {
	s.begin("AppendThread(%d)", n.ID)
	s.appendStep(n, sync)
}

func (s *Sim) appendStep(n *Node, sync bool) {
	m := n.AppendQ[0]
	n.AppendQ = n.AppendQ[1:]
	synced := len(m.GetResponses()) > 0 || sync
	if !s.writeAtomic(n, m.GetSnapshot(), m.GetEntries(), appendMsgHS(m), synced) {
		return
	}
	if !n.Up {
		return
	}
	for _, r := range m.GetResponses() {
		if r.GetTo() == n.ID {
			n.SelfQ[0] = append(n.SelfQ[0], r)
		} else {
			s.release(n, r)
		}
	}
}

func (s *Sim) ApplyStep(n *Node) {
	s.begin("ApplyThread(%d)", n.ID)
	s.applyStep(n)
}

func (s *Sim) applyStep(n *Node) {
	m := n.ApplyQ[0]
	n.ApplyQ = n.ApplyQ[1:]
	s.applyEntries(n, m.GetEntries())
	if !n.Up {
		return
	}
	for _, r := range m.GetResponses() {
		if r.GetTo() == n.ID {
			n.SelfQ[1] = append(n.SelfQ[1], r)
		} else {
			s.release(n, r)
		}
	}
}

func (s *Sim) SelfStep(n *Node, k int) {
	s.begin("SelfDeliver(%d thread=%d)", n.ID, k)
	s.selfStep(n, k)
}

func (s *Sim) selfStep(n *Node, k int) {
	m := n.SelfQ[k][0]
	n.SelfQ[k] = n.SelfQ[k][1:]
	s.touch(n, &Cause{Kind: "self", Msg: m}, func() { _ = n.RN.Step(m) })
}

// ---------------------------------------------------------------- macros

// Service handles all pending work of n to completion.
func (s *Sim) Service(n *Node) {
	s.begin("Service(%d)", n.ID)
	s.service(n)
}

func (s *Sim) service(n *Node) bool {
	did := false
	if n.Opts.Async {
		for i := 0; i < 50 && n.Up; i++ {
			switch {
			case len(n.SelfQ[0]) > 0 && !n.SlowAck:
				s.selfStep(n, 0)
			case len(n.SelfQ[1]) > 0:
				s.selfStep(n, 1)
			case len(n.AppendQ) > 0 && !n.SlowAppend:
				s.appendStep(n, !n.Opts.LazySync)
			case len(n.ApplyQ) > 0 && !n.SlowApply:
				s.applyStep(n)
			case n.RN.HasReady():
				s.takeReadyAsync(n)
			default:
				return did
			}
			did = true
		}
		return did
	}
	for i := 0; i < 20 && n.Up; i++ {
		switch {
		case n.Phase == PhaseIdle:
			if !n.RN.HasReady() {
				return did
			}
			s.takeReady(n)
		case n.Phase == PhaseTaken:
			s.persistEntries(n)
		case n.Phase == PhaseEntries:
			s.persistHS(n, !n.Opts.LazySync)
		case !n.Sent:
			s.sendMsgs(n)
		case !n.Applied:
			s.applyCommitted(n)
		default:
			s.advance(n)
		}
		did = true
	}
	return did
}

// Stabilize services every node and delivers every deliverable message FIFO,
// for at most rounds rounds.
func (s *Sim) Stabilize(rounds int) {
	s.begin("Stabilize(%d)", rounds)
	s.stabilize(rounds)
}

func (s *Sim) stabilize(rounds int) bool {
	any := false
	for r := 0; r < rounds; r++ {
		did := false
		for _, n := range s.upNodes() {
			if s.service(n) {
				did = true
			}
		}
		// deliver a snapshot of the currently deliverable flights, FIFO
		var ids []int
		for _, i := range s.Net.deliverable() {
			ids = append(ids, s.Net.Pool[i].ID)
		}
		for _, id := range ids {
			for i, f := range s.Net.Pool {
				if f.ID == id {
					s.Net.remove(i)
					s.deliver(f)
					did = true
					break
				}
			}
		}
		// report delivered snapshots
		for k := 0; k < len(s.Net.Owed); {
			o := s.Net.Owed[k]
			if o.Delivered {
				s.Net.Owed = append(s.Net.Owed[:k:k], s.Net.Owed[k+1:]...)
				ln := s.Nodes[o.Leader]
				if ln.Up && ln.Inc == o.LeaderInc {
					s.touch(ln, &Cause{Kind: "reportsnap", Msg: &pb.Message{From: new(o.To)}}, func() { ln.RN.ReportSnapshot(o.To, raft.SnapshotFinish) })
					did = true
				}
				continue
			}
			k++
		}
		if !did {
			break
		}
		any = true
	}
	return any
}

// ---------------------------------------------------------------- crash / restart

// Crash kills node n. partialAppend: an async node first writes only the
// entries of the head MsgStorageAppend (no hard state, no responses).
// loseUnsynced: an un-fsynced commit index reverts to the last synced one.
func (s *Sim) Crash(n *Node, partialAppend, loseUnsynced bool) {
	s.begin("Crash(%d partial=%v loseUnsynced=%v phase=%d)", n.ID, partialAppend, loseUnsynced, n.Phase)
	if partialAppend && n.Opts.Async && len(n.AppendQ) > 0 {
		m := n.AppendQ[0]
		if m.GetSnapshot() == nil && len(m.GetEntries()) > 0 && !(n.BootMember && n.Disk.HS == nil) {
			s.writeEntries(n, m.GetEntries())
			s.Stats.inc("crash.partial_append")
		}
	}
	if !n.Up {
		return
	}
	if st := n.RN.VerifState(); len(st.MsgsAfterAppend) > 0 || len(n.AppendQ) > 0 || len(n.SelfQ[0]) > 0 ||
		(n.Phase != PhaseIdle && !n.Sent) || st.UnstableLen > 0 {
		s.Stats.inc("crash.with_pending_promises")
	}
	d := n.Disk
	if loseUnsynced && d.loseUnsynced() {
		s.Stats.inc("crash.lost_unsynced_hs")
		n.LostCommitInc = n.Inc
		s.tracef("    node %d lost its un-synced hard state, now %v", n.ID, d.HS)
	}
	s.Mon.onCrash(n)
	s.Stats.inc("crash")
	s.crashInternal(n)
}

// RestartRange is restartRange for scripted scenarios.
func (s *Sim) RestartRange(n *Node) (lo, hi uint64) { return s.restartRange(n) }

// restartRange returns the legal range for Config.Applied on restart.
func (s *Sim) restartRange(n *Node) (lo, hi uint64) {
	d := n.Disk
	lo = max(d.first()-1, n.SM.DurableApplied)
	hi = min(n.SM.Applied, max(d.commit(), d.first()-1))
	if hi < lo {
		hi = lo
	}
	return lo, hi
}

func (s *Sim) Restart(n *Node, applied uint64) {
	s.begin("Restart(%d applied=%d)", n.ID, applied)
	lo, hi := s.restartRange(n)
	if applied < lo || applied > hi {
		s.harnessBug("restart applied %d outside [%d,%d]", applied, lo, hi)
	}
	s.Stats.inc("restart")
	if applied < n.SM.Applied {
		s.Stats.inc("restart.applied_rewound")
	}
	s.start(n, applied)
}

// compactRange returns the legal range (lo,hi] for a new snapshot index.
func (s *Sim) compactRange(n *Node) (lo, hi uint64) {
	if !n.Up {
		return 0, 0
	}
	d := n.Disk
	lo = d.snapIndex()
	hi = min(n.RN.Status().Applied, n.SM.Applied, d.last(), d.commit())
	return lo, hi
}

// Compact creates a snapshot at index i and compacts the log up to j<=i.
func (s *Sim) Compact(n *Node, i, j uint64) {
	s.begin("Compact(%d snap=%d compact=%d)", n.ID, i, j)
	lo, hi := s.compactRange(n)
	if i <= lo || i > hi || j > i {
		s.harnessBug("compact (%d,%d) outside (%d,%d]", i, j, lo, hi)
	}
	d := n.Disk
	d.syncAll() // creating a snapshot fsyncs
	p, ok := n.SM.At[i]
	if !ok {
		s.harnessBug("no SM state at %d", i)
	}
	s.guard(n, "MemoryStorage.CreateSnapshot", func() {
		if _, err := d.MS.CreateSnapshot(i, p.Conf.ConfState(), u64b(p.Hash)); err != nil {
			panic(err)
		}
	})
	if !n.Up {
		return
	}
	if j >= d.first() {
		s.guard(n, "MemoryStorage.Compact", func() {
			if err := d.MS.Compact(j); err != nil {
				panic(err)
			}
		})
		n.SM.DurableApplied = max(n.SM.DurableApplied, j)
		s.Stats.inc("compact")
	}
	s.Mon.onCompact(n)
}

// ---------------------------------------------------------------- local API

// Proposal is one Propose/ProposeConfChange call of the harness.
type Proposal struct {
	Seq    int
	Node   uint64
	Inc    int
	Step   int
	Conf   bool
	Datas  [][]byte // one per entry of the batch
	Types  []pb.EntryType
	Err    error
	AtRole raft.StateType
	// LeaderDeliveries counts deliveries to a node that was leader.
	LeaderDeliveries int
	LocalAccepted    bool
}

func (s *Sim) payload(seq, k, size int) []byte {
	b := []byte(fmt.Sprintf("p%d.%d|", seq, k))
	for len(b) < size {
		b = append(b, 'x')
	}
	return b
}

func (s *Sim) Propose(n *Node, size int) *Proposal {
	s.propSeq++
	p := &Proposal{Seq: s.propSeq, Node: n.ID, Inc: n.Inc, Step: s.Step + 1,
		Datas: [][]byte{s.payload(s.propSeq, 0, size)}, Types: []pb.EntryType{pb.EntryNormal}}
	s.begin("Propose(%d p%d size=%d)", n.ID, p.Seq, len(p.Datas[0]))
	s.Mon.beforePropose(n, p)
	data := append([]byte(nil), p.Datas[0]...)
	s.touch(n, &Cause{Kind: "propose", Prop: p}, func() { p.Err = n.RN.Propose(data) })
	s.Mon.afterPropose(n, p)
	s.tracef("    -> %v", p.Err)
	return p
}

func (s *Sim) ProposeBatch(n *Node, sizes []int) *Proposal {
	s.propSeq++
	p := &Proposal{Seq: s.propSeq, Node: n.ID, Inc: n.Inc, Step: s.Step + 1}
	var ents []*pb.Entry
	for k, sz := range sizes {
		d := s.payload(s.propSeq, k, sz)
		p.Datas = append(p.Datas, d)
		p.Types = append(p.Types, pb.EntryNormal)
		ents = append(ents, &pb.Entry{Data: append([]byte(nil), d...)})
	}
	s.begin("ProposeBatch(%d p%d n=%d)", n.ID, p.Seq, len(sizes))
	s.Mon.beforePropose(n, p)
	m := &pb.Message{Type: pb.MsgProp.Enum(), From: new(n.ID), Entries: ents}
	s.touch(n, &Cause{Kind: "propose", Prop: p}, func() { p.Err = n.RN.Step(m) })
	s.Mon.afterPropose(n, p)
	s.tracef("    -> %v", p.Err)
	return p
}

// ProposeConf proposes a conf change (V1 if v1 and it has exactly one change).
func (s *Sim) ProposeConf(n *Node, cc *pb.ConfChangeV2, v1 bool) *Proposal {
	s.propSeq++
	ctx := []byte(fmt.Sprintf("c%d|", s.propSeq))
	var cci pb.ConfChangeI
	if v1 && len(cc.GetChanges()) == 1 && cc.GetTransition() == pb.ConfChangeTransitionAuto {
		cci = &pb.ConfChange{Type: cc.GetChanges()[0].GetType().Enum(), NodeId: new(cc.GetChanges()[0].GetNodeId()), Context: ctx}
	} else {
		c2 := proto.Clone(cc).(*pb.ConfChangeV2)
		c2.Context = ctx
		cci = c2
	}
	typ, data, err := pb.MarshalConfChange(cci)
	if err != nil {
		s.harnessBug("marshal conf change: %v", err)
	}
	p := &Proposal{Seq: s.propSeq, Node: n.ID, Inc: n.Inc, Step: s.Step + 1, Conf: true,
		Datas: [][]byte{data}, Types: []pb.EntryType{typ}}
	s.begin("ProposeConf(%d c%d %s tr=%v v1=%v)", n.ID, p.Seq, pb.ConfChangesToString(cc.GetChanges()), cc.GetTransition(), typ == pb.EntryConfChange)
	s.Mon.beforePropose(n, p)
	s.touch(n, &Cause{Kind: "propose", Prop: p}, func() { p.Err = n.RN.ProposeConfChange(cci) })
	s.Mon.afterPropose(n, p)
	s.tracef("    -> %v", p.Err)
	return p
}

func (s *Sim) Campaign(n *Node) {
	s.begin("Campaign(%d)", n.ID)
	s.touch(n, &Cause{Kind: "campaign"}, func() { _ = n.RN.Campaign() })
}

func (s *Sim) TransferLeader(n *Node, to uint64) {
	s.begin("TransferLeader(%d -> %d)", n.ID, to)
	s.Stats.inc("api.transfer")
	s.touch(n, &Cause{Kind: "transfer"}, func() { n.RN.TransferLeader(to) })
}

func (s *Sim) ReadIndex(n *Node, dupOf string) string {
	ctx := dupOf
	if ctx == "" {
		s.readSeq++
		ctx = fmt.Sprintf("r%d", s.readSeq)
	}
	s.begin("ReadIndex(%d %s)", n.ID, ctx)
	s.Mon.beforeReadIndex(n, ctx)
	s.touch(n, &Cause{Kind: "readindex", Msg: &pb.Message{Context: []byte(ctx)}}, func() { n.RN.ReadIndex([]byte(ctx)) })
	return ctx
}

func (s *Sim) ForgetLeader(n *Node) {
	s.begin("ForgetLeader(%d)", n.ID)
	s.touch(n, &Cause{Kind: "forgetleader"}, func() { _ = n.RN.ForgetLeader() })
}

func (s *Sim) ReportUnreachable(n *Node, id uint64) {
	s.begin("ReportUnreachable(%d, %d)", n.ID, id)
	s.touch(n, &Cause{Kind: "unreachable"}, func() { n.RN.ReportUnreachable(id) })
}

var errDropped = raft.ErrProposalDropped

func isDropped(err error) bool { return errors.Is(err, errDropped) }
