package sim

// LivenessSuffix is the fault-free suffix and oracle of C15 (see live.go).
func (s *Sim) LivenessSuffix() {}
