package sim

import (
	"fmt"
	"sort"

	"go.etcd.io/raft/v3"
	pb "go.etcd.io/raft/v3/raftpb"
	"go.etcd.io/raft/v3/tracker"
)

// LivenessSuffix is the fault-free suffix of C15 followed by its oracle
// (bounded liveness): all members of the committed configuration run, removed
// nodes are stopped, every message is delivered FIFO, snapshot outcomes are
// reported, ticks arrive round-robin with the network drained in between.
func (s *Sim) LivenessSuffix() {
	s.begin("LivenessSuffix")
	s.classifySuffixStart()
	s.Net.Blocked = map[[2]uint64]bool{}
	s.ReleaseAll()
	// un-delivered snapshots: report failure
	for k := len(s.Net.Owed) - 1; k >= 0; k-- {
		if !s.Net.Owed[k].Delivered {
			found := false
			for _, f := range s.Net.Pool {
				if f.M.GetType() == pb.MsgSnap && f.From == s.Net.Owed[k].Leader && f.To == s.Net.Owed[k].To {
					found = true
				}
			}
			if !found {
				s.ReportSnap(k, true)
			}
		}
	}
	maxET := 0
	for _, id := range s.IDs {
		n := s.Nodes[id]
		n.Disk.Mode = SnapFresh
		n.Disk.TempUnavailable = false
		n.Opts.LazySync = false
		n.SlowAppend, n.SlowApply, n.SlowAck = false, false, false
		if n.Opts.ElectionTick > maxET {
			maxET = n.Opts.ElectionTick
		}
	}
	half := 30 * maxET
	if !s.runSuffixRounds(half, func() bool { return s.convergedBasic() == "" }) {
		// not yet converged: keep going, the oracle decides at the end
	}
	// second half: fresh proposals and reads at every member
	var props []*Proposal
	var reads []string
	for _, n := range s.suffixMembers() {
		if !n.Up {
			continue
		}
		leaderLocal := n.RN.BasicStatus().RaftState == raft.StateLeader
		p := s.Propose(n, 8)
		if p.Err == nil && leaderLocal {
			props = append(props, p)
		}
		if s.Mon.allSafe || !n.Opts.LeaseRead {
			reads = append(reads, s.ReadIndex(n, ""))
		}
	}
	done := func() bool {
		return s.convergedBasic() == "" && s.suffixObligations(props, reads) == ""
	}
	s.runSuffixRounds(half, done)
	if msg := s.convergedBasic(); msg != "" {
		// Is a survivor unable to assemble a quorum of a voter set it still
		// uses, because a majority of that set was removed/demoted and the
		// survivor has not learnt it? For a two-voter set this is the
		// documented exception (README); for other sizes it is the same
		// mechanism, recorded as a known finding.
		lost, onlyTwo := s.staleQuorumLost()
		sig := "c15.not_converged"
		switch {
		case lost && onlyTwo:
			s.Stats.inc("live.exempt_two_voter")
			return
		case lost:
			sig = "c15.not_converged/stale_quorum_lost"
		}
		s.Mon.viol([]string{"C15"}, "converges", sig, "after the fault-free suffix (%d tick rounds): %s | %s", 2*half, msg, s.dumpNodes())
		return
	}
	if msg := s.suffixObligations(props, reads); msg != "" {
		s.Mon.viol([]string{"C15"}, "obligations_met", "c15.obligation_unmet", "after the fault-free suffix (%d tick rounds): %s", 2*half, msg)
	}
}

// suffixMembers returns the nodes that are members of the latest committed
// configuration.
func (s *Sim) suffixMembers() []*Node {
	conf := s.Reg.latestConf()
	var out []*Node
	for _, id := range s.IDs {
		if conf.IsMember(id) {
			out = append(out, s.Nodes[id])
		}
	}
	return out
}

// enforceMembership restarts down members and stops non-members.
func (s *Sim) enforceMembership() {
	conf := s.Reg.latestConf()
	for _, id := range s.IDs {
		n := s.Nodes[id]
		member := conf.IsMember(id)
		switch {
		case member && !n.Up:
			_, hi := s.restartRange(n)
			s.Restart(n, hi)
		case !member && n.Up:
			s.begin("Stop(%d) (not in the committed configuration)", n.ID)
			s.Mon.onCrash(n)
			s.crashInternal(n)
		}
	}
}

func (s *Sim) runSuffixRounds(rounds int, done func() bool) bool {
	stable := 0
	redrawn := map[uint64][2]uint64{}
	startDeliveries := s.deliveries
	for r := 0; r < rounds; r++ {
		if s.deliveries-startDeliveries > 200*rounds {
			// a group that exchanges hundreds of messages per tick round
			// without converging is not going to; stop and let the oracle
			// decide (keeps a broken tree from turning the check into hours)
			return false
		}
		s.enforceMembership()
		s.stabilize(40)
		for _, n := range s.suffixMembers() {
			if !n.Up {
				continue
			}
			// raft re-randomizes its election timeout at every reset (term or
			// role change); the harness overrides the timeout before every
			// tick, so it has to re-draw it at the same points.
			bs := n.RN.BasicStatus()
			key := [2]uint64{bs.GetTerm(), uint64(bs.RaftState)}
			if last, ok := redrawn[n.ID]; !ok || last != key {
				redrawn[n.ID] = key
				n.Opts.Timeout = s.D.Int(n.Opts.ElectionTick, 2*n.Opts.ElectionTick-1, "suffixtimeout")
			}
			s.Step++
			s.tick(n)
			s.enforceMembership()
			s.stabilize(40)
		}
		if done() {
			stable++
			if stable >= 2 {
				return true
			}
		} else {
			stable = 0
		}
	}
	return false
}

// convergedBasic returns "" if the group has converged, else what is wrong.
func (s *Sim) convergedBasic() string {
	members := s.suffixMembers()
	if len(members) == 0 {
		return ""
	}
	var leader *raft.VerifState
	states := map[uint64]*raft.VerifState{}
	for _, n := range members {
		if !n.Up {
			return fmt.Sprintf("member %d is down", n.ID)
		}
		st := n.RN.VerifState()
		states[n.ID] = &st
		if st.State == raft.StateLeader {
			if leader != nil {
				return fmt.Sprintf("two leaders: %d (term %d) and %d (term %d)", leader.ID, leader.Term, st.ID, st.Term)
			}
			leader = &st
		}
	}
	if leader == nil {
		return "no member is leader"
	}
	ids := make([]uint64, 0, len(states))
	for id := range states {
		ids = append(ids, id)
	}
	sort.Slice(ids, func(i, j int) bool { return ids[i] < ids[j] })
	for _, id := range ids {
		st := states[id]
		n := s.Nodes[id]
		if st.Term != leader.Term || st.Lead != leader.ID {
			return fmt.Sprintf("member %d has (term %d, lead %d), leader is %d at term %d", id, st.Term, st.Lead, leader.ID, leader.Term)
		}
		if st.LastIndex != leader.LastIndex || st.LastTerm != leader.LastTerm {
			return fmt.Sprintf("member %d log ends at (%d,%d), leader's at (%d,%d)", id, st.LastIndex, st.LastTerm, leader.LastIndex, leader.LastTerm)
		}
		if st.Commit != st.LastIndex || st.Applied != st.LastIndex || n.SM.Applied != st.LastIndex {
			return fmt.Sprintf("member %d: commit %d applied %d (app %d) last %d", id, st.Commit, st.Applied, n.SM.Applied, st.LastIndex)
		}
		if st.UnstableLen != 0 || st.PendingSnapIndex != 0 {
			return fmt.Sprintf("member %d still has %d unstable entries / pending snapshot %d", id, st.UnstableLen, st.PendingSnapIndex)
		}
		if n.Opts.Async && (len(n.AppendQ)+len(n.ApplyQ)+len(n.SelfQ[0])+len(n.SelfQ[1]) > 0) {
			return fmt.Sprintf("member %d has queued storage work", id)
		}
		if len(st.VotersOutgoing) > 0 && st.AutoLeave {
			return fmt.Sprintf("member %d is still in an auto-leave joint config %s", id, confOfState(st))
		}
		if h, ok := s.Reg.chainAt(st.LastIndex); ok && h != n.SM.Hash {
			return fmt.Sprintf("member %d state machine differs at %d", id, st.LastIndex)
		}
	}
	if leader.LeadTransferee != 0 {
		return fmt.Sprintf("leader %d still transferring to %d", leader.ID, leader.LeadTransferee)
	}
	for _, pr := range leader.Progress {
		if _, isM := states[pr.ID]; !isM {
			continue
		}
		if pr.State != tracker.StateReplicate || pr.Match != leader.LastIndex {
			return fmt.Sprintf("leader %d: progress of %d is %v match %d (last %d)", leader.ID, pr.ID, pr.State, pr.Match, leader.LastIndex)
		}
		if pr.ID != leader.ID && pr.Paused && pr.InflightCount == 0 {
			return fmt.Sprintf("leader %d: replication to %d is paused", leader.ID, pr.ID)
		}
	}
	return ""
}

// suffixObligations: proposals accepted by the leader in the second half are
// committed and applied everywhere; reads issued then were answered.
func (s *Sim) suffixObligations(props []*Proposal, reads []string) string {
	for _, p := range props {
		keys := s.Mon.propEntry[p.Seq]
		if len(keys) == 0 {
			return fmt.Sprintf("proposal p%d accepted by leader %d is in no log", p.Seq, p.Node)
		}
		var at uint64
		for _, key := range keys {
			if cr := s.Reg.committed[key[0]]; cr != nil && cr.Term == key[1] {
				at = key[0]
			}
		}
		if at == 0 {
			return fmt.Sprintf("proposal p%d (entries %v) accepted by leader %d is not committed", p.Seq, keys, p.Node)
		}
		for _, n := range s.suffixMembers() {
			if n.SM.Applied < at {
				return fmt.Sprintf("proposal p%d at index %d not applied by member %d (applied %d)", p.Seq, at, n.ID, n.SM.Applied)
			}
		}
	}
	// Reads are issued for coverage only: C15 does not list ReadIndex among
	// the things that must complete (observed: a ReadIndex at a sole voter in
	// an explicit joint config {1}&&{1} is never answered, because read
	// confirmation is only re-evaluated on a heartbeat response).
	for _, ctx := range reads {
		if r := s.Mon.reads[ctx]; r != nil && r.Answered == 0 {
			s.Stats.inc("live.read_unanswered")
		}
	}
	return ""
}

// classifySuffixStart records what kind of state the suffix starts from.
func (s *Sim) classifySuffixStart() {
	leaders := 0
	for _, id := range s.IDs {
		n := s.Nodes[id]
		if !n.Up {
			s.Stats.inc("live.start_node_down")
			continue
		}
		st := n.RN.VerifState()
		if st.State == raft.StateLeader {
			leaders++
			if st.LeadTransferee != 0 {
				s.Stats.inc("live.start_pending_transfer")
			}
			for _, pr := range st.Progress {
				switch {
				case pr.State == tracker.StateSnapshot:
					s.Stats.inc("live.start_follower_in_snapshot")
				case pr.Paused && pr.ID != st.ID:
					s.Stats.inc("live.start_follower_paused")
				}
			}
		}
		if st.LastIndex > st.Commit {
			s.Stats.inc("live.start_uncommitted_tail")
		}
		if len(st.VotersOutgoing) > 0 {
			s.Stats.inc("live.start_joint")
		}
		if st.QueuedReads > 0 {
			s.Stats.inc("live.start_queued_reads")
		}
		if st.UnstableLen > 0 {
			s.Stats.inc("live.start_unstable_entries")
		}
	}
	switch {
	case leaders == 0:
		s.Stats.inc("live.start_no_leader")
	case leaders > 1:
		s.Stats.inc("live.start_two_leaders")
	}
	if len(s.Net.Blocked) > 0 {
		s.Stats.inc("live.start_partitioned")
	}
}

func (s *Sim) dumpNodes() string {
	out := fmt.Sprintf("committed conf %s;", s.Reg.latestConf())
	for _, id := range s.IDs {
		n := s.Nodes[id]
		if !n.Up {
			out += fmt.Sprintf(" [%d down]", id)
			continue
		}
		st := n.RN.VerifState()
		out += fmt.Sprintf(" [%d %v t%d lead%d log(%d,%d) c%d a%d conf %s pendconf %d xfer %d]", id, st.State, st.Term, st.Lead,
			st.LastIndex, st.LastTerm, st.Commit, st.Applied, confOfState(&st), st.PendingConfIndex, st.LeadTransferee)
	}
	return out
}

// staleQuorumLost reports whether some running member still uses a voter set
// of which fewer than a quorum are running voters of the committed config.
// onlyTwo: every such set has exactly two voters.
func (s *Sim) staleQuorumLost() (lost, onlyTwo bool) {
	conf := s.Reg.latestConf()
	onlyTwo = true
	for _, n := range s.upNodes() {
		if !conf.IsMember(n.ID) {
			continue
		}
		st := n.RN.VerifState()
		for _, set := range [][]uint64{st.Voters, st.VotersOutgoing} {
			if len(set) == 0 {
				continue
			}
			cnt := 0
			for _, v := range set {
				if vn := s.Nodes[v]; vn != nil && vn.Up && conf.Voters[v] {
					cnt++
				}
			}
			if cnt < len(set)/2+1 {
				lost = true
				if len(set) != 2 {
					onlyTwo = false
				}
			}
		}
	}
	return lost, onlyTwo
}
