package sim

import (
	"go.etcd.io/raft/v3"
	pb "go.etcd.io/raft/v3/raftpb"
)

// Macros added after the third round of seeded changes. They are still pure
// functions of the draws; each strings together a shape that uniform random
// actions practically never produce: the *same* node leading twice with
// stale leader-side state in between (Comeback), one index flipping between
// terms while the local write of the first version is still queued
// (FlipFlop), a candidate whose own vote is not durable crashing and running
// for the same term again (CrashRecampaign).

func (s *Sim) cut(a, b uint64) {
	if a == b {
		return
	}
	s.Net.Blocked[[2]uint64{a, b}] = true
	s.Net.Blocked[[2]uint64{b, a}] = true
}

func (s *Sim) connect(a, b uint64) {
	delete(s.Net.Blocked, [2]uint64{a, b})
	delete(s.Net.Blocked, [2]uint64{b, a})
}

func (s *Sim) isLeader(n *Node) bool {
	return n != nil && n.Up && n.RN.BasicStatus().RaftState == raft.StateLeader
}

// leadsAbove: n leads a term above t.
func (s *Sim) leadsAbove(n *Node, t uint64) bool {
	return s.isLeader(n) && n.RN.BasicStatus().GetTerm() > t
}

func (s *Sim) termOf(n *Node) uint64 {
	if n == nil || !n.Up {
		return 0
	}
	return n.RN.BasicStatus().GetTerm()
}

// expireLeases ticks every running node that cand can reach through an
// election timeout, so that CheckQuorum/PreVote voters no longer ignore
// cand's requests in favour of a leader they cannot hear any more.
func (s *Sim) expireLeases(cand *Node) {
	for _, n := range s.upNodes() {
		if n.ID == cand.ID || s.Net.blocked(cand.ID, n.ID) || s.isLeader(n) {
			continue
		}
		for i := 0; i < n.Opts.ElectionTick && n.Up; i++ {
			s.tick(n)
		}
	}
}

// electAmong makes cand campaign until it leads (bounded).
func (s *Sim) electAmong(cand *Node) bool {
	for i := 0; i < 4 && cand.Up && !s.isLeader(cand); i++ {
		if i > 0 {
			s.expireLeases(cand)
		}
		s.TickUntilCampaign(cand)
		s.stabilize(6)
	}
	return s.isLeader(cand)
}

// comebackFeasible: there is a leader, and the running voters other than the
// leader and one follower can still elect one of themselves.
func (s *Sim) comebackFeasible() bool {
	L := s.leaderNode()
	if L == nil {
		return false
	}
	st := L.RN.VerifState()
	if len(st.VotersOutgoing) > 0 {
		return false
	}
	n := 0
	for _, id := range st.Voters {
		if x := s.Nodes[id]; x != nil && x.Up && id != L.ID {
			n++
		}
	}
	return n-1 >= len(st.Voters)/2+1
}

// electStepwise is electAmong, but returns the moment cand leads: its first
// append (the empty entry of the new term) has not been delivered yet.
func (s *Sim) electStepwise(cand *Node) bool {
	for i := 0; i < 4 && cand.Up && !s.isLeader(cand); i++ {
		if i > 0 {
			s.expireLeases(cand)
		}
		s.TickUntilCampaign(cand)
		for r := 0; r < 8 && cand.Up && !s.isLeader(cand); r++ {
			if !s.stabilize(1) {
				break
			}
		}
	}
	return s.isLeader(cand)
}

// Comeback: leader L replicates a few entries (and optionally a read) to one
// follower F only, both are cut off, the rest elects C. Then either
//
//	mode 0 (overwritten, re-elected): C commits, L rejoins as follower and its
//	  tail is overwritten, L is made leader again (transfer or campaign) and
//	  then talks to a single node X only - optionally as the unaware leader
//	  of a minority while the majority moves on - before F comes back;
//	mode 1 (flip-flop): C's entries reach only F (overwriting L's there), C is
//	  cut off, L wins the next term with the votes of the nodes that saw
//	  neither and re-sends its old entries to F: one index goes t1 -> t2 -> t1.
//
// F's append thread may be stalled throughout, so that all its local writes
// are still queued while this happens (stale and ABA acknowledgements).
func (s *Sim) Comeback(p *Profile) {
	d := s.D
	s.begin("Comeback")
	L := s.leaderNode()
	up := s.upNodes()
	if L == nil || len(up) < 3 {
		return
	}
	s.Stats.inc("macro.comeback")
	var others []*Node
	for _, n := range up {
		if n.ID != L.ID {
			others = append(others, n)
		}
	}
	F := others[d.Int(0, len(others)-1, "F")]
	var rest []*Node
	for _, n := range others {
		if n.ID != F.ID {
			rest = append(rest, n)
		}
	}
	mode := d.Int(0, 2, "mode") / 2 // 0,0,1
	stallF := F.Opts.Async && d.Int(0, 2, "stallF") > 0
	// in the flip-flop the append thread keeps working (the follower's
	// rejections travel with it) and only its acknowledgements to raft lag
	ackOnly := mode == 1 || d.Int(0, 2, "ackonly") == 0
	stall := func(on bool) {
		if ackOnly {
			F.SlowAck = on
		} else {
			F.SlowAppend = on
		}
	}
	if stallF {
		stall(true)
		s.Stats.inc("async.stalled")
	}
	defer func() {
		if stallF {
			stall(false)
		}
	}()
	// optional shared prefix: one entry everybody gets while F's disk is
	// already stalled (F holds it unstable, the others persist it)
	if d.Int(0, 2, "prefix") == 0 && L.Up {
		s.Propose(L, s.drawSize(p))
		s.stabilize(2)
	}
	// phase 1: L reaches F only
	for _, id := range s.IDs {
		if id != F.ID {
			s.cut(L.ID, id)
		}
	}
	if d.Int(0, 1, "read1") == 1 && L.Up {
		s.ReadIndex(L, "")
	}
	firstOld := L.RN.VerifState().LastIndex + 1
	k1 := d.Int(1, 3, "oldprops")
	for i := 0; i < k1 && L.Up; i++ {
		s.Propose(L, s.drawSize(p))
	}
	s.stabilize(3)
	// phase 2: L is alone; F stays with the rest or is alone too
	s.cut(L.ID, F.ID)
	fIsolated := mode == 0 && d.Int(0, 2, "fIsolated") > 0
	if fIsolated {
		for _, id := range s.IDs {
			s.cut(F.ID, id)
		}
	}
	if len(rest) == 0 {
		return
	}
	C := rest[d.Int(0, len(rest)-1, "C")]
	if elected := (mode == 1 && s.electStepwise(C)) || (mode == 0 && s.electAmong(C)); !elected {
		if d.Int(0, 1, "heal") == 1 {
			s.Heal()
		}
		return
	}
	s.Stats.inc("macro.comeback_new_leader")
	k2 := d.Int(1, 3, "newprops")
	if mode == 1 {
		// C's entries reach F only
		for _, n := range rest {
			s.cut(C.ID, n.ID)
		}
		for i := 0; i < k2 && C.Up; i++ {
			s.Propose(C, s.drawSize(p))
		}
		s.stabilize(3)
		for _, id := range s.IDs {
			s.cut(C.ID, id)
		}
		// L comes back to the nodes that saw neither side's entries
		for _, n := range rest {
			if n.ID != C.ID {
				s.connect(L.ID, n.ID)
			}
		}
		if !L.Up {
			return
		}
		// L may still believe it leads the old term: let it hear from the
		// others first, then win a term above C's
		tC := s.termOf(C)
		for i := 0; i < 2*L.Opts.HeartbeatTick && L.Up; i++ {
			s.tick(L)
		}
		s.stabilize(3)
		if s.isLeader(L) && !s.leadsAbove(L, tC) {
			// without CheckQuorum/PreVote nobody tells a stale leader: a vote
			// request of a higher term does
			for _, n := range rest {
				if n.ID != C.ID && n.Up {
					s.TickUntilCampaign(n)
					s.stabilize(3)
					break
				}
			}
		}
		for i := 0; i < 4 && L.Up && !s.leadsAbove(L, tC); i++ {
			if i > 0 {
				s.expireLeases(L)
			}
			s.TickUntilCampaign(L)
			s.stabilize(6)
		}
		if s.leadsAbove(L, tC) {
			s.Stats.inc("macro.flipflop_reelected")
			if L.Up && d.Int(0, 1, "prop3") == 1 {
				s.Propose(L, s.drawSize(p))
			}
			s.connect(L.ID, F.ID)
			for i := 0; i < 2*L.Opts.HeartbeatTick && L.Up; i++ {
				s.tick(L)
			}
			// run until L's re-append of its old entries is on its way to F
			// (F's rejections of L's probes travel with its append thread)
			var reapp *Flight
			for r := 0; r < 8 && reapp == nil; r++ {
				for _, n := range s.upNodes() {
					s.service(n)
				}
				for _, fl := range s.Net.Pool {
					if fl.From == L.ID && fl.To == F.ID && fl.M.GetType() == pb.MsgApp && len(fl.M.GetEntries()) > 0 &&
						fl.M.GetEntries()[0].GetIndex() <= firstOld && !fl.Held && !s.Net.blocked(fl.From, fl.To) {
						reapp = fl
						fl.Held = true
						break
					}
				}
				if reapp == nil && !s.stabilize(1) {
					break
				}
			}
			if reapp != nil {
				reapp.Held = false
				if stallF && F.Up && L.Up {
					// F appends them while the write of C's version is done
					// and this one is not; only then the acknowledgement of
					// the very first write arrives
					s.Stats.inc("macro.flipflop_aba")
					F.SlowAppend = true
					for i, fl := range s.Net.Pool {
						if fl == reapp {
							s.Deliver(i, false)
							break
						}
					}
					stall(false)
					stallF = false
					if F.Up {
						s.service(F)
					}
					F.SlowAppend = false
				}
			}
			s.stabilize(4)
			if stallF {
				stall(false)
				stallF = false
				s.stabilize(4)
			}
			// L moves on and compacts: C, which still holds its own version
			// of these indexes (a later term than L's old entries), will
			// need a snapshot when it comes back
			if L.Up && s.isLeader(L) && d.Int(0, 2, "compactL") > 0 {
				for i, k := 0, d.Int(0, 2, "props4"); i < k && L.Up; i++ {
					s.Propose(L, s.drawSize(p))
				}
				s.stabilize(3)
				if lo, hi := s.compactRange(L); L.Up && hi > lo {
					// the snapshot may end before L's entries of the new term
					i := uint64(d.Int(int(lo+1), int(hi), "snapindex"))
					s.Compact(L, i, i)
					s.Stats.inc("macro.flipflop_compacted")
				}
			}
		}
		if d.Int(0, 2, "heal") > 0 {
			s.Heal()
			if L.Up && s.isLeader(L) {
				for i := 0; i < 2*L.Opts.HeartbeatTick && L.Up; i++ {
					s.tick(L)
				}
				s.stabilize(5)
			}
		}
		return
	}
	for i := 0; i < k2 && C.Up; i++ {
		s.Propose(C, s.drawSize(p))
	}
	s.stabilize(4)
	// phase 3: L rejoins the rest (still cut from F) and is overwritten
	for _, n := range rest {
		s.connect(L.ID, n.ID)
	}
	for i := 0; i < 2*C.Opts.HeartbeatTick && C.Up; i++ {
		s.tick(C)
	}
	s.stabilize(6)
	if !L.Up {
		return
	}
	// phase 4: L leads again
	if s.isLeader(C) && d.Int(0, 1, "viatransfer") == 0 {
		s.TransferLeader(C, L.ID)
		s.stabilize(6)
	}
	tC := s.termOf(C)
	for i := 0; i < 4 && L.Up && !s.leadsAbove(L, tC-1); i++ {
		if i > 0 {
			s.expireLeases(L)
		}
		s.TickUntilCampaign(L)
		s.stabilize(6)
	}
	if !s.leadsAbove(L, tC-1) || tC == 0 {
		if d.Int(0, 1, "heal") == 1 {
			s.Heal()
		}
		return
	}
	s.Stats.inc("macro.comeback_reelected")
	// phase 5: L talks to X only
	X := rest[d.Int(0, len(rest)-1, "X")]
	var majority []*Node
	for _, n := range rest {
		if n.ID != X.ID {
			majority = append(majority, n)
		}
	}
	for _, n := range majority {
		s.cut(L.ID, n.ID)
		s.cut(X.ID, n.ID)
	}
	if d.Int(0, 1, "depose") == 1 && len(majority) >= 1 {
		// the other side (joined by F) moves on without L noticing
		if fIsolated {
			for _, n := range majority {
				s.connect(F.ID, n.ID)
			}
		}
		C2 := majority[d.Int(0, len(majority)-1, "C2")]
		if s.electAmong(C2) {
			for i, k := 0, d.Int(1, 2, "props2"); i < k && C2.Up; i++ {
				s.Propose(C2, s.drawSize(p))
			}
			s.stabilize(4)
			if s.isLeader(L) {
				s.Stats.inc("macro.comeback_deposed_unaware")
			}
		}
	}
	if L.Up && d.Int(0, 1, "read2") == 1 {
		s.ReadIndex(L, "")
	}
	if L.Up {
		s.Propose(L, s.drawSize(p))
	}
	s.stabilize(3)
	// F comes back to L
	s.connect(L.ID, F.ID)
	for i := 0; i < 2*L.Opts.HeartbeatTick && L.Up; i++ {
		s.tick(L)
	}
	s.stabilize(4)
	if stallF {
		stall(false)
		stallF = false
		s.stabilize(3)
	}
	if d.Int(0, 2, "heal") > 0 {
		s.Heal()
	}
}

// CrashRecampaign: a node whose append thread is stalled campaigns; the
// others answer. Whatever it became, it replicates to at most one follower,
// crashes with all its queued writes lost, restarts, and campaigns again -
// for the same term if its first candidacy never became durable - while that
// follower is cut off. Afterwards everything heals.
func (s *Sim) CrashRecampaign(p *Profile) {
	d := s.D
	up := s.upNodes()
	s.begin("CrashRecampaign")
	if len(up) < 3 {
		return
	}
	var cands []*Node
	for _, n := range up {
		if n.Opts.Async {
			cands = append(cands, n)
		}
	}
	if len(cands) == 0 {
		cands = up
	}
	X := cands[d.Int(0, len(cands)-1, "X")]
	s.Stats.inc("macro.crashrecampaign")
	var others []*Node
	for _, n := range up {
		if n.ID != X.ID {
			others = append(others, n)
		}
	}
	F1 := others[d.Int(0, len(others)-1, "F1")]
	X.SlowAppend = X.Opts.Async
	if s.isLeader(X) {
		// start from a follower: hand leadership away first
		s.TransferLeader(X, F1.ID)
		s.stabilize(6)
	}
	if l := s.leaderNode(); l != nil && l.ID != X.ID && d.Int(0, 1, "viatransfer") == 1 {
		s.TransferLeader(l, X.ID)
	} else if X.Up {
		s.TickUntilCampaign(X)
	}
	s.stabilize(4)
	if !X.Up {
		X.SlowAppend = false
		return
	}
	// whatever X is now, only F1 hears from it
	for _, n := range others {
		if n.ID != F1.ID {
			s.cut(X.ID, n.ID)
		}
	}
	if s.isLeader(X) {
		s.Stats.inc("macro.crashrecampaign_led_first")
	}
	for i, k := 0, d.Int(0, 2, "props1"); i < k && X.Up; i++ {
		s.Propose(X, s.drawSize(p))
	}
	s.stabilize(3)
	if !X.Up {
		X.SlowAppend = false
		return
	}
	s.Crash(X, false, d.Int(0, 1, "loseunsynced") == 1)
	X.SlowAppend = false
	_, hi := s.restartRange(X)
	s.Restart(X, hi)
	if !X.Up {
		return
	}
	// F1 is cut off, X reaches the others again
	for _, id := range s.IDs {
		s.cut(F1.ID, id)
	}
	for _, n := range others {
		if n.ID != F1.ID {
			s.connect(X.ID, n.ID)
		}
	}
	s.TickUntilCampaign(X)
	s.stabilize(6)
	if s.isLeader(X) {
		s.Stats.inc("macro.crashrecampaign_led_second")
		for i, k := 0, d.Int(1, 2, "props2"); i < k && X.Up; i++ {
			s.Propose(X, s.drawSize(p))
		}
		s.stabilize(4)
	}
	s.Heal()
	if l := s.leaderNode(); l != nil {
		for i := 0; i < 2*l.Opts.HeartbeatTick && l.Up; i++ {
			s.tick(l)
		}
	}
	s.stabilize(6)
	// the follower that heard the first candidacy takes over
	if d.Int(0, 2, "f1leads") == 0 && F1.Up {
		s.electAmong(F1)
	}
}

// SnapThenAppend: a follower gets a snapshot and, before its application has
// looked at the resulting Ready, also the appends that follow it: the leader
// is told the snapshot went through (ReportSnapshot) and a heartbeat response
// that was already on its way un-pauses it. The follower's next Ready (or
// MsgStorageAppend) then carries a snapshot and entries together, and one
// acknowledgement covers both.
func (s *Sim) SnapThenAppend(p *Profile) {
	d := s.D
	s.begin("SnapThenAppend")
	l := s.leaderNode()
	if l == nil {
		return
	}
	var others []*Node
	for _, n := range s.upNodes() {
		if n.ID != l.ID {
			others = append(others, n)
		}
	}
	if len(others) == 0 {
		return
	}
	f := others[d.Int(0, len(others)-1, "laggard")]
	// f falls behind the leader's compaction point; the log goes on after it
	s.Isolate(f)
	for i, k := 0, d.Int(2, 4, "props"); i < k && l.Up; i++ {
		s.Propose(l, s.drawSize(p))
	}
	s.stabilize(4)
	if !l.Up || !s.isLeader(l) {
		s.Heal()
		return
	}
	if lo, hi := s.compactRange(l); hi > lo {
		s.Compact(l, hi, hi)
	}
	for i, k := 0, d.Int(1, 3, "more"); i < k && l.Up; i++ {
		s.Propose(l, s.drawSize(p))
	}
	s.stabilize(3)
	s.Heal()
	// run until the snapshot for f is in flight, and hold it
	var snap *Flight
	for r := 0; r < 10 && snap == nil && l.Up && f.Up; r++ {
		if r%2 == 0 {
			s.tick(l)
		}
		for _, n := range s.upNodes() {
			s.service(n)
		}
		for _, fl := range s.Net.Pool {
			if fl.M.GetType() == pb.MsgSnap && fl.To == f.ID && fl.From == l.ID && !fl.Held {
				snap = fl
				fl.Held = true
				break
			}
		}
		if snap == nil {
			s.stabilize(1)
		}
	}
	if snap == nil || !l.Up || !f.Up {
		return
	}
	s.Stats.inc("macro.snapthenapp_snapshot_held")
	// a heartbeat overtakes the snapshot; f answers it, the answer is held
	for i := 0; i < l.Opts.HeartbeatTick && l.Up; i++ {
		s.tick(l)
	}
	s.service(l)
	for again := true; again; {
		again = false
		for i, fl := range s.Net.Pool {
			if fl.M.GetType() == pb.MsgHeartbeat && fl.To == f.ID && fl.From == l.ID && !fl.Held && !s.Net.blocked(fl.From, fl.To) {
				s.Deliver(i, false)
				again = true
				break
			}
		}
	}
	if f.Up {
		s.service(f)
	}
	var resp *Flight
	for _, fl := range s.Net.Pool {
		if fl.M.GetType() == pb.MsgHeartbeatResp && fl.From == f.ID && fl.To == l.ID {
			resp = fl
			fl.Held = true
		}
	}
	if resp == nil || !f.Up || !l.Up {
		snap.Held = false
		return
	}
	// now the snapshot arrives; f's application does not look at it yet
	snap.Held = false
	for i, fl := range s.Net.Pool {
		if fl == snap {
			s.Deliver(i, false)
			break
		}
	}
	// the transport reports the snapshot as sent
	for k := len(s.Net.Owed) - 1; k >= 0; k-- {
		if o := s.Net.Owed[k]; o.To == f.ID && o.Leader == l.ID {
			s.ReportSnap(k, false)
			break
		}
	}
	// the held heartbeat response un-pauses the leader
	for _, fl := range s.Net.Pool {
		if fl.M.GetType() == pb.MsgHeartbeatResp && fl.From == f.ID && fl.To == l.ID {
			fl.Held = false
		}
	}
	for i, fl := range s.Net.Pool {
		if fl == resp {
			s.Deliver(i, false)
			break
		}
	}
	if l.Up {
		s.service(l)
	}
	// its appends reach f before f handles the snapshot
	n := 0
	for again := true; again && f.Up; {
		again = false
		for i, fl := range s.Net.Pool {
			if fl.M.GetType() == pb.MsgApp && fl.To == f.ID && fl.From == l.ID && !fl.Held && !s.Net.blocked(fl.From, fl.To) {
				s.Deliver(i, false)
				n++
				again = true
				break
			}
		}
	}
	if n > 0 {
		s.Stats.inc("macro.snapthenapp_appends_before_ready")
	}
	s.stabilize(d.Int(2, 6, "rounds"))
}

// stalledNodeTakesOver: f receives entries while its append thread is
// stalled, starts campaigning (new term) before they are written, and wins.
// The acknowledgements of those writes then carry the old term and are
// ignored, so f leads with entries of an earlier term still in its unstable
// log; the acknowledgement of its first own write is delayed while the
// followers answer.
func (s *Sim) stalledNodeTakesOver(p *Profile, f *Node) {
	d := s.D
	f.SlowAppend = true
	defer func() { f.SlowAppend, f.SlowAck = false, false }()
	if l := s.leaderNode(); l != nil && l.ID != f.ID {
		// the last entries of the old leader may reach f only: the others
		// then need them from f (one by one under a small MaxSizePerMsg)
		onlyF := d.Int(0, 1, "onlyf") == 1
		if onlyF {
			for _, id := range s.IDs {
				if id != f.ID {
					s.cut(l.ID, id)
				}
			}
		}
		for i, k := 0, d.Int(1, 3, "props"); i < k && l.Up; i++ {
			s.Propose(l, s.drawSize(p))
		}
		s.stabilize(4)
		if onlyF || d.Int(0, 1, "leadergone") == 1 {
			s.Isolate(l)
		}
	}
	if !f.Up {
		return
	}
	s.TickUntilCampaign(f)
	// the append thread catches up, but of its answers f only gets those that
	// are not acknowledgements of the new term: the stale acknowledgement of
	// the old-term write (ignored) and its own vote
	f.SlowAppend, f.SlowAck = false, true
	for try := 0; try < 3 && f.Up && !s.isLeader(f); try++ {
		if try > 0 {
			s.expireLeases(f)
			s.TickUntilCampaign(f)
		}
		for r := 0; r < 8 && f.Up && !s.isLeader(f); r++ {
			did := s.stabilize(1)
			s.HandOverAllButCurrentTermAcks(f)
			if !did {
				break
			}
		}
	}
	if !s.isLeader(f) {
		return
	}
	if st := f.RN.VerifState(); st.UnstableLen > 1 {
		s.Stats.inc("macro.leader_with_old_unstable_entries")
	}
	if d.Int(0, 1, "prop") == 1 {
		s.Propose(f, s.drawSize(p))
	}
	s.stabilize(d.Int(2, 5, "rounds"))
	f.SlowAck = false
	s.stabilize(3)
	if d.Int(0, 1, "heal") == 1 {
		s.Heal()
	}
}

// HandOverAllButCurrentTermAcks delivers n's queued append-thread responses
// in order, up to the first acknowledgement issued in n's current term.
func (s *Sim) HandOverAllButCurrentTermAcks(n *Node) {
	for n.Up && len(n.SelfQ[0]) > 0 {
		m := n.SelfQ[0][0]
		if m.GetType() == pb.MsgStorageAppendResp && m.GetTerm() == n.RN.BasicStatus().GetTerm() {
			return
		}
		s.selfStep(n, 0)
	}
}

// LeaveDuringTransfer: an auto-leave joint change is proposed, and before it
// is applied the leader starts a leadership transfer to a node it cannot
// reach. While the transfer is pending every proposal is dropped - also the
// leader's own leave-joint proposal when the change is applied; it has to be
// made again once the transfer was given up.
func (s *Sim) LeaveDuringTransfer(p *Profile) {
	d := s.D
	s.begin("LeaveDuringTransfer")
	l := s.leaderNode()
	if l == nil {
		return
	}
	var others []*Node
	for _, n := range s.upNodes() {
		if n.ID != l.ID {
			others = append(others, n)
		}
	}
	if len(others) < 2 {
		return
	}
	x := others[d.Int(0, len(others)-1, "target")]
	if l.Opts.DisableConfChangeValidation && !s.confChangeTokenFree(l) {
		return
	}
	cc := s.drawConfChange()
	if len(cc.GetChanges()) == 0 {
		return
	}
	cc.Transition = pb.ConfChangeTransitionJointImplicit.Enum()
	s.ProposeConf(l, cc, false)
	s.Isolate(x)
	if l.Up {
		s.TransferLeader(l, x.ID)
	}
	s.Stats.inc("macro.leave_during_transfer")
	s.stabilize(d.Int(3, 8, "rounds"))
	if d.Int(0, 1, "heal") == 1 {
		s.Heal()
	}
}
