package sim

import (
	"fmt"
	"math"
	"runtime/debug"
	"sort"
	"strings"

	"go.etcd.io/raft/v3"
	pb "go.etcd.io/raft/v3/raftpb"
	"verif/harness/refmodel"
)

// Drawer is the source of every random choice. In generated cases it is backed
// by rapid (so shrinking and replay work); scripted schedules use a fixed one.
type Drawer interface {
	// Int draws from [lo, hi] inclusive.
	Int(lo, hi int, label string) int
}

// NodeOpts is the per-node configuration feature vector.
type NodeOpts struct {
	ElectionTick, HeartbeatTick int
	PreVote, CheckQuorum        bool
	Async                       bool
	StepDownOnRemoval           bool
	DisableProposalForwarding   bool
	DisableConfChangeValidation bool
	LeaseRead                   bool
	MaxSizePerMsg               uint64
	MaxCommittedSizePerReady    uint64
	MaxUncommittedEntriesSize   uint64
	MaxInflightMsgs             int
	MaxInflightBytes            uint64
	SnapMode                    SnapMode
	// LazySync: writes that need no sync (MustSync=false, or a
	// MsgStorageAppend without responses) are left un-fsynced.
	LazySync bool
	// Timeout is the value written into the randomized election timeout
	// before every Tick; in [ElectionTick, 2*ElectionTick-1].
	Timeout int
}

func (o NodeOpts) String() string {
	var f []string
	if o.Async {
		f = append(f, "async")
	} else {
		f = append(f, "sync")
	}
	if o.PreVote {
		f = append(f, "prevote")
	}
	if o.CheckQuorum {
		f = append(f, "checkq")
	}
	if o.StepDownOnRemoval {
		f = append(f, "stepdown")
	}
	if o.DisableProposalForwarding {
		f = append(f, "nofwd")
	}
	if o.DisableConfChangeValidation {
		f = append(f, "noccval")
	}
	if o.LeaseRead {
		f = append(f, "lease")
	}
	if o.LazySync {
		f = append(f, "lazysync")
	}
	lim := func(v uint64) string {
		if v == math.MaxUint64 {
			return "inf"
		}
		return fmt.Sprint(v)
	}
	return fmt.Sprintf("%s et=%d hb=%d to=%d msg=%s apply=%s uncom=%s infl=%d/%s snap=%d",
		strings.Join(f, ","), o.ElectionTick, o.HeartbeatTick, o.Timeout, lim(o.MaxSizePerMsg),
		lim(o.MaxCommittedSizePerReady), lim(o.MaxUncommittedEntriesSize), o.MaxInflightMsgs, lim(o.MaxInflightBytes), o.SnapMode)
}

// WorldOpts describes the initial cluster.
type WorldOpts struct {
	IDs      []uint64 // all node ids that exist in the case (sorted)
	Voters   []uint64 // initial voters
	Learners []uint64 // initial learners
	// BootPeers: if true use RawNode.Bootstrap(peers) (learners ignored);
	// else storage is pre-loaded with a snapshot at BootIndex, term 1.
	BootPeers bool
	BootIndex uint64
	Nodes     map[uint64]NodeOpts
}

func (w WorldOpts) String() string {
	var sb strings.Builder
	fmt.Fprintf(&sb, "ids=%v voters=%v learners=%v bootpeers=%v bootindex=%d", w.IDs, w.Voters, w.Learners, w.BootPeers, w.BootIndex)
	for _, id := range w.IDs {
		fmt.Fprintf(&sb, " | %d: %s", id, w.Nodes[id])
	}
	return sb.String()
}

// Ready phases of a sync node.
const (
	PhaseIdle = iota
	PhaseTaken
	PhaseEntries   // entries persisted, hard state not yet
	PhasePersisted // everything persisted
)

// Node is one raft node id for the whole case (up or down).
type Node struct {
	ID   uint64
	Opts NodeOpts
	Up   bool
	Inc  int // incarnation, increases at every (re)start
	RN   *raft.RawNode
	Disk *Disk
	SM   *SM

	// BootMember: initial member bootstrapped through Bootstrap(peers).
	BootMember bool

	// sync Ready phase machine
	Phase   int
	Rd      raft.Ready
	Sent    bool
	Applied bool

	// async queues
	AppendQ []*pb.Message
	ApplyQ  []*pb.Message
	SelfQ   [2][]*pb.Message // [0] from append thread, [1] from apply thread

	Ticks int // own tick count (whole life)

	// SnapFloor: index of the newest snapshot raft handed to this incarnation
	// for installation. Apply work at or below it is stale: the snapshot
	// supersedes it (and raft's configuration already is the snapshot's).
	SnapFloor uint64

	// SlowAppend/SlowApply: the node's storage threads are stalled (slow
	// disk / slow state machine); Service leaves their queues alone.
	SlowAppend, SlowApply bool
	// SlowAck: the append thread works, but its acknowledgements to the raft
	// state machine (MsgStorageAppendResp) are delivered late: they race with
	// overwrites of the entries they name.
	SlowAck bool

	// LostCommitInc is the incarnation whose crash lost an un-synced commit.
	LostCommitInc int

	// monitor scratch, reset per incarnation where noted
	mon nodeMon
}

// Violation is a property violation found by a monitor.
type Violation struct {
	Prop    string
	Monitor string
	Sig     string // signature for known-findings matching
	Msg     string
	Step    int
}

func (v *Violation) Error() string {
	return fmt.Sprintf("VIOLATION[%s/%s sig=%s step=%d]: %s", v.Prop, v.Monitor, v.Sig, v.Step, v.Msg)
}

// PanicEvent is a recovered panic out of raft code.
type PanicEvent struct {
	Node  uint64
	Msg   string
	Stack string
	Step  int
	What  string
}

// endCase is panicked to unwind out of a case early (not a failure).
type endCase struct{ reason string }

// Sim is one simulated world (one generated case).
type Sim struct {
	// NoIDReuse: the application never lets a removed id join again (doc.go:
	// an ID must be used only once). Precondition of the liveness check.
	NoIDReuse bool
	D     Drawer
	W     WorldOpts
	Nodes map[uint64]*Node
	IDs   []uint64
	Net   *Net
	Reg   *Registry
	Mon   *Monitors

	Step  int
	Trace []string
	// TraceOn controls whether the human-readable trace is recorded.
	TraceOn bool

	Violations []*Violation
	Panics     []PanicEvent
	Stats      *CaseStats

	// FailFast: panic(*Violation) at the first violation of an owned property.
	FailFast bool

	// OutOn: record every observable output (C19).
	OutOn bool
	Out   []OutEvent

	// Precursors: known findings whose precondition arose in this case (only
	// when they are not excluded by construction).
	Precursors map[string]bool

	// Exclude lists known-finding signatures excluded by construction.
	Exclude map[string]bool

	initConf refmodel.Conf

	// ActionsRun counts the random actions executed so far.
	ActionsRun int

	propSeq    int
	readSeq    int
	deliveries int
	curCause   *Cause
}

// Cause describes why a RawNode is being called (for monitors).
type Cause struct {
	Kind   string // "tick","deliver","propose","ready","advance","self","applyconf",...
	Flight *Flight
	Msg    *pb.Message
	Prop   *Proposal
	Err    error // result of Step for deliveries
}

func (s *Sim) tracef(format string, a ...any) {
	if s.TraceOn {
		s.Trace = append(s.Trace, fmt.Sprintf("%4d ", s.Step)+fmt.Sprintf(format, a...))
	}
}

// NewSim builds the world: storages, state machines and RawNodes.
func NewSim(d Drawer, w WorldOpts, mon *Monitors) *Sim {
	s := &Sim{D: d, W: w, Nodes: map[uint64]*Node{}, Mon: mon, Stats: newCaseStats(), TraceOn: true, FailFast: true}
	s.IDs = append([]uint64(nil), w.IDs...)
	sort.Slice(s.IDs, func(i, j int) bool { return s.IDs[i] < s.IDs[j] })
	s.Net = newNet(s)
	s.Reg = newRegistry(s)
	initConf := refmodel.NewConf()
	for _, v := range w.Voters {
		initConf.Voters[v] = true
	}
	if !w.BootPeers {
		for _, l := range w.Learners {
			initConf.Learners[l] = true
		}
	}
	s.Reg.init(w, initConf)
	mon.init(s)
	s.initConf = initConf
	return s
}

// Boot creates storages, state machines and RawNodes of all ids.
func (s *Sim) Boot() {
	w, initConf := s.W, s.initConf
	s.tracef("WORLD %s", w)
	for _, id := range s.IDs {
		n := &Node{ID: id, Opts: w.Nodes[id]}
		n.Disk = newDisk(n)
		n.Disk.stats = s.Stats
		n.Disk.Mode = n.Opts.SnapMode
		n.SM = newSM()
		s.Nodes[id] = n
		member := initConf.IsMember(id)
		if w.BootPeers {
			n.BootMember = member
			n.SM.reset(0, bootHash, refmodel.NewConf())
		} else if member {
			snap := &pb.Snapshot{
				Data: u64b(bootHash),
				Metadata: &pb.SnapshotMetadata{
					Index: new(w.BootIndex), Term: new(uint64(1)),
					ConfState: initConf.ConfState(),
				},
			}
			if err := n.Disk.MS.ApplySnapshot(snap); err != nil {
				panic(err)
			}
			n.SM.reset(w.BootIndex, bootHash, initConf)
			n.SM.DurableApplied = w.BootIndex
		} else {
			n.SM.reset(0, 0, refmodel.NewConf())
		}
		s.start(n, n.SM.Applied)
	}
}

func (s *Sim) raftConfig(n *Node, applied uint64) *raft.Config {
	o := n.Opts
	c := &raft.Config{
		ID:                          n.ID,
		ElectionTick:                o.ElectionTick,
		HeartbeatTick:               o.HeartbeatTick,
		Storage:                     n.Disk,
		Applied:                     applied,
		AsyncStorageWrites:          o.Async,
		MaxSizePerMsg:               o.MaxSizePerMsg,
		MaxCommittedSizePerReady:    o.MaxCommittedSizePerReady,
		MaxUncommittedEntriesSize:   o.MaxUncommittedEntriesSize,
		MaxInflightMsgs:             o.MaxInflightMsgs,
		MaxInflightBytes:            o.MaxInflightBytes,
		CheckQuorum:                 o.CheckQuorum,
		PreVote:                     o.PreVote,
		Logger:                      &quietLogger{},
		DisableProposalForwarding:   o.DisableProposalForwarding,
		DisableConfChangeValidation: o.DisableConfChangeValidation,
		StepDownOnRemoval:           o.StepDownOnRemoval,
	}
	if o.LeaseRead {
		c.ReadOnlyOption = raft.ReadOnlyLeaseBased
	}
	return c
}

// start creates a RawNode for n on its disk (initial start or restart).
func (s *Sim) start(n *Node, applied uint64) {
	n.Inc++
	n.Phase, n.Sent, n.Applied = PhaseIdle, false, false
	n.Rd = raft.Ready{}
	n.AppendQ, n.ApplyQ = nil, nil
	n.SelfQ = [2][]*pb.Message{}
	n.SnapFloor = 0
	// ConfState as of Applied.
	if p, ok := n.SM.At[applied]; ok {
		n.Disk.InitCS = p.Conf.ConfState()
	} else {
		s.harnessBug("restart of %d with Applied=%d: no recorded state machine state", n.ID, applied)
	}
	if !n.SM.rewind(applied) {
		s.harnessBug("cannot rewind SM of %d to %d", n.ID, applied)
	}
	var rn *raft.RawNode
	ok := s.guard(n, "NewRawNode", func() {
		var err error
		rn, err = raft.NewRawNode(s.raftConfig(n, applied))
		if err != nil {
			panic(err)
		}
		if n.BootMember && n.Disk.last() == 0 && n.Disk.HS == nil {
			var peers []raft.Peer
			for _, v := range s.W.Voters {
				peers = append(peers, raft.Peer{ID: v})
			}
			if err := rn.Bootstrap(peers); err != nil {
				panic(err)
			}
		}
	})
	if !ok {
		return
	}
	n.RN = rn
	n.Up = true
	st := rn.VerifState()
	s.Mon.onStart(n, &st)
}

func (s *Sim) harnessBug(format string, a ...any) {
	panic("HARNESS-BUG: " + fmt.Sprintf(format, a...))
}

// guard runs f (a call into raft) and recovers a panic, recording it. Returns
// false if f panicked; the node is then treated as crashed.
func (s *Sim) guard(n *Node, what string, f func()) (ok bool) {
	defer func() {
		if r := recover(); r != nil {
			if _, isEnd := r.(endCase); isEnd {
				panic(r)
			}
			if v, isV := r.(*Violation); isV {
				panic(v)
			}
			msg := fmt.Sprint(r)
			if strings.HasPrefix(msg, "HARNESS-BUG") {
				panic(r)
			}
			pe := PanicEvent{Node: n.ID, Msg: msg, Stack: string(debug.Stack()), Step: s.Step, What: what}
			s.Panics = append(s.Panics, pe)
			s.tracef("PANIC in %s on node %d: %s", what, n.ID, msg)
			ok = false
			s.crashInternal(n)
			s.Mon.onPanic(n, pe)
		}
	}()
	f()
	return true
}

// touch calls into n's RawNode with pre/post state capture and runs the
// state-transition monitors.
func (s *Sim) touch(n *Node, c *Cause, f func()) bool {
	pre := n.RN.VerifState()
	s.curCause = c
	ok := s.guard(n, c.Kind, f)
	s.curCause = nil
	if !ok {
		return false
	}
	post := n.RN.VerifState()
	s.recordState(n, &post, c.Kind, c.Err)
	s.Mon.afterTouch(n, &pre, &post, c)
	return true
}

func (s *Sim) crashInternal(n *Node) {
	n.Up = false
	n.SlowAppend, n.SlowApply, n.SlowAck = false, false, false
	n.RN = nil
	n.Phase, n.Sent, n.Applied = PhaseIdle, false, false
	n.Rd = raft.Ready{}
	n.AppendQ, n.ApplyQ = nil, nil
	n.SelfQ = [2][]*pb.Message{}
}

// violate records a violation of prop; if prop is owned by the running check
// and FailFast is set, it unwinds the case.
func (s *Sim) violate(prop, monitor, sig, format string, a ...any) {
	v := &Violation{Prop: prop, Monitor: monitor, Sig: sig, Msg: fmt.Sprintf(format, a...), Step: s.Step}
	s.Violations = append(s.Violations, v)
	s.tracef("%s", v.Error())
	if s.FailFast && s.Mon.Owned[prop] {
		panic(v)
	}
}

func (s *Sim) upNodes() []*Node {
	var out []*Node
	for _, id := range s.IDs {
		if n := s.Nodes[id]; n.Up {
			out = append(out, n)
		}
	}
	return out
}

func (s *Sim) downNodes() []*Node {
	var out []*Node
	for _, id := range s.IDs {
		if n := s.Nodes[id]; !n.Up {
			out = append(out, n)
		}
	}
	return out
}
