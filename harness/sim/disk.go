package sim

import (
	"go.etcd.io/raft/v3"
	pb "go.etcd.io/raft/v3/raftpb"
	"verif/harness/refmodel"
)

// SnapMode selects what Storage.Snapshot() serves (DESIGN §3).
type SnapMode int

const (
	SnapFresh  SnapMode = iota // built at the app's applied index
	SnapStored                 // the last CreateSnapshot/ApplySnapshot
)

// Disk is the durable state of one node id. It survives crashes. It wraps a
// MemoryStorage and adds (a) the ConfState as of Config.Applied for restarts,
// (b) un-synced hard state bookkeeping, (c) the snapshot-serving policy.
type Disk struct {
	MS *raft.MemoryStorage
	// HS mirrors the hard state written to MS (nil if none).
	HS *pb.HardState
	// SyncedHS is the hard state as of the last write known to be fsynced
	// (nil if none); a crash may revert HS to it.
	SyncedHS *pb.HardState
	// InitCS, if set, is returned from InitialState (ConfState as of Applied).
	InitCS *pb.ConfState

	Mode SnapMode
	// TempUnavailable makes the next Snapshot() call fail once.
	TempUnavailable bool

	node  *Node
	stats *CaseStats
}

func newDisk(n *Node) *Disk {
	return &Disk{MS: raft.NewMemoryStorage(), node: n}
}

func (d *Disk) InitialState() (*pb.HardState, *pb.ConfState, error) {
	hs, cs, err := d.MS.InitialState()
	if d.InitCS != nil {
		cs = d.InitCS
	}
	return hs, cs, err
}
func (d *Disk) Entries(lo, hi, maxSize uint64) ([]*pb.Entry, error) {
	return d.MS.Entries(lo, hi, maxSize)
}
func (d *Disk) Term(i uint64) (uint64, error) { return d.MS.Term(i) }
func (d *Disk) LastIndex() (uint64, error)    { return d.MS.LastIndex() }
func (d *Disk) FirstIndex() (uint64, error)   { return d.MS.FirstIndex() }
func (d *Disk) first() uint64                 { i, _ := d.MS.FirstIndex(); return i }
func (d *Disk) last() uint64                  { i, _ := d.MS.LastIndex(); return i }
func (d *Disk) snapIndex() uint64             { s, _ := d.MS.Snapshot(); return s.GetMetadata().GetIndex() }
func (d *Disk) storedSnap() *pb.Snapshot      { s, _ := d.MS.Snapshot(); return s }
func (d *Disk) commit() uint64                { return d.HS.GetCommit() }

// termAt returns the durable term at index i (0,false if not durably held).
func (d *Disk) termAt(i uint64) (uint64, bool) {
	t, err := d.MS.Term(i)
	if err != nil {
		return 0, false
	}
	return t, true
}

// holds reports whether the durable log holds (i,t), or a snapshot covers i.
func (d *Disk) holds(i, t uint64) bool {
	if i < d.first() {
		// covered by compaction/snapshot: index first-1 has a known term,
		// anything below is covered.
		if i+1 == d.first() {
			tt, ok := d.termAt(i)
			return ok && tt == t
		}
		return true
	}
	tt, ok := d.termAt(i)
	return ok && tt == t
}

func (d *Disk) Snapshot() (*pb.Snapshot, error) {
	if d.TempUnavailable {
		d.TempUnavailable = false
		if d.stats != nil {
			d.stats.inc("snap.temporarily_unavailable")
		}
		return nil, raft.ErrSnapshotTemporarilyUnavailable
	}
	n := d.node
	if d.Mode == SnapFresh && n != nil && n.SM.Applied > d.snapIndex() {
		if t, ok := d.termAt(n.SM.Applied); ok {
			return n.SM.makeSnapshot(n.SM.Applied, t), nil
		}
	}
	return d.MS.Snapshot()
}

// syncAll marks everything written so far as fsynced.
func (d *Disk) syncAll() { d.SyncedHS = cloneHS(d.HS) }

// loseUnsynced reverts the hard state to the last synced one. Returns true
// if something was lost.
func (d *Disk) loseUnsynced() bool {
	if d.HS == nil || (d.SyncedHS != nil && d.HS.GetTerm() == d.SyncedHS.GetTerm() && d.HS.GetVote() == d.SyncedHS.GetVote() && d.HS.GetCommit() == d.SyncedHS.GetCommit()) {
		return false
	}
	d.HS = cloneHS(d.SyncedHS)
	_ = d.MS.SetHardState(cloneHS(d.SyncedHS))
	return true
}

func (d *Disk) setHardState(hs *pb.HardState, synced bool) {
	d.HS = cloneHS(hs)
	_ = d.MS.SetHardState(cloneHS(hs))
	if synced {
		d.SyncedHS = cloneHS(hs)
	}
}

// smPoint is the state machine at one index.
type smPoint struct {
	Hash uint64
	Conf refmodel.Conf
}

// SM is the application state machine: a hash chain over applied entries plus
// the configuration folded with the reference model (the application
// validates committed conf changes against its own state, like etcd).
type SM struct {
	Applied uint64
	Hash    uint64
	Conf    refmodel.Conf
	// At records the state at every applied index since the base.
	At map[uint64]smPoint
	// DurableApplied is a lower bound for Config.Applied on restart: the
	// application's durable applied index (raised by compaction).
	DurableApplied uint64
}

func newSM() *SM {
	return &SM{Conf: refmodel.NewConf(), At: map[uint64]smPoint{}}
}

func (sm *SM) reset(index, hash uint64, conf refmodel.Conf) {
	sm.Applied, sm.Hash, sm.Conf = index, hash, conf.Clone()
	sm.At[index] = smPoint{Hash: hash, Conf: sm.Conf}
}

func (sm *SM) record() {
	sm.At[sm.Applied] = smPoint{Hash: sm.Hash, Conf: sm.Conf}
}

// rewind sets the state machine to a previously recorded index.
func (sm *SM) rewind(index uint64) bool {
	p, ok := sm.At[index]
	if !ok {
		return false
	}
	sm.Applied, sm.Hash, sm.Conf = index, p.Hash, p.Conf.Clone()
	return true
}

func (sm *SM) makeSnapshot(index, term uint64) *pb.Snapshot {
	p, ok := sm.At[index]
	if !ok {
		return nil
	}
	return &pb.Snapshot{
		Data: u64b(p.Hash),
		Metadata: &pb.SnapshotMetadata{
			Index:     new(index),
			Term:      new(term),
			ConfState: p.Conf.ConfState(),
		},
	}
}
