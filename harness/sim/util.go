package sim

import (
	"encoding/binary"
	"fmt"
	"hash/fnv"
	"sort"
	"strings"

	"google.golang.org/protobuf/proto"

	"go.etcd.io/raft/v3"
	pb "go.etcd.io/raft/v3/raftpb"
)

// RaftPanic is the value raft's Logger.Panic* panics with in the harness.
type RaftPanic struct{ Msg string }

func (p RaftPanic) String() string { return p.Msg }

// quietLogger discards everything except Panic/Fatal, which panic with a
// RaftPanic so that the harness can recover and classify them.
type quietLogger struct {
	sink *[]string // optional ring of recent log lines (debug only)
}

func (l *quietLogger) add(format string, v ...any) {
	if l.sink != nil {
		*l.sink = append(*l.sink, fmt.Sprintf(format, v...))
		if len(*l.sink) > 64 {
			*l.sink = (*l.sink)[32:]
		}
	}
}

func (l *quietLogger) Debug(v ...any)                   {}
func (l *quietLogger) Debugf(format string, v ...any)   {}
func (l *quietLogger) Error(v ...any)                   { l.add("E %s", fmt.Sprint(v...)) }
func (l *quietLogger) Errorf(format string, v ...any)   { l.add("E "+format, v...) }
func (l *quietLogger) Info(v ...any)                    {}
func (l *quietLogger) Infof(format string, v ...any)    {}
func (l *quietLogger) Warning(v ...any)                 {}
func (l *quietLogger) Warningf(format string, v ...any) {}
func (l *quietLogger) Fatal(v ...any)                   { panic(RaftPanic{fmt.Sprint(v...)}) }
func (l *quietLogger) Fatalf(format string, v ...any)   { panic(RaftPanic{fmt.Sprintf(format, v...)}) }
func (l *quietLogger) Panic(v ...any)                   { panic(RaftPanic{fmt.Sprint(v...)}) }
func (l *quietLogger) Panicf(format string, v ...any)   { panic(RaftPanic{fmt.Sprintf(format, v...)}) }

func init() {
	// MemoryStorage panics through the package-level logger.
	raft.SetLogger(&quietLogger{})
}

func cloneMsg(m *pb.Message) *pb.Message { return proto.Clone(m).(*pb.Message) }
func cloneEnt(e *pb.Entry) *pb.Entry     { return proto.Clone(e).(*pb.Entry) }
func cloneEnts(es []*pb.Entry) []*pb.Entry {
	out := make([]*pb.Entry, len(es))
	for i, e := range es {
		out[i] = cloneEnt(e)
	}
	return out
}
func cloneHS(h *pb.HardState) *pb.HardState {
	if h == nil {
		return nil
	}
	return proto.Clone(h).(*pb.HardState)
}
func cloneSnap(s *pb.Snapshot) *pb.Snapshot { return proto.Clone(s).(*pb.Snapshot) }

// wire sends a message through Marshal/Unmarshal so that nothing aliases
// raft's memory.
func wire(m *pb.Message) *pb.Message {
	b, err := proto.Marshal(m)
	if err != nil {
		panic(err)
	}
	out := &pb.Message{}
	if err := proto.Unmarshal(b, out); err != nil {
		panic(err)
	}
	return out
}

func hashBytes(parts ...[]byte) uint64 {
	h := fnv.New64a()
	for _, p := range parts {
		var l [8]byte
		binary.LittleEndian.PutUint64(l[:], uint64(len(p)))
		h.Write(l[:])
		h.Write(p)
	}
	return h.Sum64()
}

func u64b(v uint64) []byte {
	var b [8]byte
	binary.LittleEndian.PutUint64(b[:], v)
	return b[:]
}

// chainHash is the state machine: h_i = H(h_{i-1}, index, term, type, data).
func chainHash(prev uint64, e *pb.Entry) uint64 {
	return hashBytes(u64b(prev), u64b(e.GetIndex()), u64b(e.GetTerm()), u64b(uint64(e.GetType())), e.GetData())
}

const bootHash uint64 = 0xB007B007B007B007

func dataHash(b []byte) uint64 { return hashBytes(b) }

func isConfEntry(e *pb.Entry) bool {
	return e.GetType() == pb.EntryConfChange || e.GetType() == pb.EntryConfChangeV2
}

// decodeCC decodes a conf change entry into V2 form (and the original, for
// ApplyConfChange).
func decodeCC(e *pb.Entry) (pb.ConfChangeI, *pb.ConfChangeV2, error) {
	switch e.GetType() {
	case pb.EntryConfChange:
		cc := &pb.ConfChange{}
		if err := proto.Unmarshal(e.GetData(), cc); err != nil {
			return nil, nil, err
		}
		return cc, cc.AsV2(), nil
	case pb.EntryConfChangeV2:
		cc := &pb.ConfChangeV2{}
		if err := proto.Unmarshal(e.GetData(), cc); err != nil {
			return nil, nil, err
		}
		return cc, cc, nil
	}
	return nil, nil, fmt.Errorf("not a conf change entry")
}

func fmtIDs(ids []uint64) string {
	var sb strings.Builder
	sb.WriteByte('[')
	for i, id := range ids {
		if i > 0 {
			sb.WriteByte(' ')
		}
		fmt.Fprintf(&sb, "%d", id)
	}
	sb.WriteByte(']')
	return sb.String()
}

func sortedU64(m map[uint64]bool) []uint64 {
	out := make([]uint64, 0, len(m))
	for k, v := range m {
		if v {
			out = append(out, k)
		}
	}
	sort.Slice(out, func(i, j int) bool { return out[i] < out[j] })
	return out
}

func containsU64(s []uint64, v uint64) bool {
	for _, x := range s {
		if x == v {
			return true
		}
	}
	return false
}

func setOf(s []uint64) map[uint64]bool {
	m := make(map[uint64]bool, len(s))
	for _, v := range s {
		m[v] = true
	}
	return m
}

func shortMsg(m *pb.Message) string {
	s := fmt.Sprintf("%s %d->%d t%d", m.GetType(), m.GetFrom(), m.GetTo(), m.GetTerm())
	switch m.GetType() {
	case pb.MsgApp:
		s += fmt.Sprintf(" prev=(%d,%d) n=%d c=%d", m.GetIndex(), m.GetLogTerm(), len(m.GetEntries()), m.GetCommit())
	case pb.MsgAppResp:
		s += fmt.Sprintf(" i=%d rej=%v hint=(%d,%d)", m.GetIndex(), m.GetReject(), m.GetRejectHint(), m.GetLogTerm())
	case pb.MsgVote, pb.MsgPreVote:
		s += fmt.Sprintf(" last=(%d,%d) ctx=%q", m.GetIndex(), m.GetLogTerm(), m.GetContext())
	case pb.MsgVoteResp, pb.MsgPreVoteResp:
		s += fmt.Sprintf(" rej=%v", m.GetReject())
	case pb.MsgSnap:
		s += fmt.Sprintf(" snap=(%d,%d)", m.GetSnapshot().GetMetadata().GetIndex(), m.GetSnapshot().GetMetadata().GetTerm())
	case pb.MsgHeartbeat:
		s += fmt.Sprintf(" c=%d ctx=%x", m.GetCommit(), m.GetContext())
	case pb.MsgHeartbeatResp:
		s += fmt.Sprintf(" ctx=%x", m.GetContext())
	case pb.MsgReadIndexResp:
		s += fmt.Sprintf(" i=%d", m.GetIndex())
	case pb.MsgProp:
		s += fmt.Sprintf(" n=%d", len(m.GetEntries()))
	}
	return s
}
