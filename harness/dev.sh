#!/bin/sh
# dev.sh <profile> <checks> [props]  — development loop
export GOFLAGS=-mod=mod GOPROXY=off GOSUMDB=off GOTOOLCHAIN=local
cd /verif/harness; rm -rf sim/testdata /tmp/verif-dev
PROFILE=$1 PROPS=$3 go1.26.8 test -tags verif ./sim/ -run TestDev -rapid.checks=$2 -v 2>&1 | grep -v "rapid\] draw" | grep -E "rapid\]|evals|VIOL|panic|^ok|FAIL" | cut -c1-400 | head -8
