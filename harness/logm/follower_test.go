package logm

import (
	"fmt"
	"runtime/debug"
	"strings"
	"testing"

	"pgregory.net/rapid"

	"go.etcd.io/raft/v3"
	pb "go.etcd.io/raft/v3/raftpb"
	"verif/harness/report"
)

// ---------------------------------------------------------------------------
// Driver L3: one RawNode with AsyncStorageWrites, fed by a scripted cluster.
// The script maintains a tree of leader logs (each new leader extends a prefix
// of an earlier leader's log that contains every committed entry) and only
// emits messages some correct leader could have sent (possibly stale). The
// storage threads lag arbitrarily. The oracle is a reference follower: an
// abstract log updated by the textbook AppendEntries/InstallSnapshot rules.
// ---------------------------------------------------------------------------

type leaderLog struct {
	id     uint64
	term   uint64
	log    *AbstractLog
	commit uint64 // this leader's commit index
	match  uint64 // highest index the follower acknowledged to this leader
}

type refFollower struct {
	term   uint64
	log    *AbstractLog
	commit uint64
}

type quiet struct{}

func (quiet) Debug(v ...any)              {}
func (quiet) Debugf(f string, v ...any)   {}
func (quiet) Error(v ...any)              {}
func (quiet) Errorf(f string, v ...any)   {}
func (quiet) Info(v ...any)               {}
func (quiet) Infof(f string, v ...any)    {}
func (quiet) Warning(v ...any)            {}
func (quiet) Warningf(f string, v ...any) {}
func (quiet) Fatal(v ...any)              { panic(fmt.Sprint(v...)) }
func (quiet) Fatalf(f string, v ...any)   { panic(fmt.Sprintf(f, v...)) }
func (quiet) Panic(v ...any)              { panic(fmt.Sprint(v...)) }
func (quiet) Panicf(f string, v ...any)   { panic(fmt.Sprintf(f, v...)) }

func init() { raft.SetLogger(quiet{}) }

type l3 struct {
	rt      *rapid.T
	rn      *raft.RawNode
	ms      *raft.MemoryStorage
	ref     *refFollower
	leaders []*leaderLog
	global  uint64 // globally committed index (prefix of every future leader)
	// globalTerm is the term of the entry at global; commitLeader the leader
	// log that committed it.
	globalTerm   uint64
	commitLeader *leaderLog
	seq          int
	appendQ      []*pb.Message
	applyQ       []*pb.Message
	selfQ        [2][]*pb.Message
	applied      uint64 // application's applied index
	nextApp      uint64 // next index expected in the apply stream
	trace        []string

	// class flags
	overwroteInFlight bool
	staleAck          bool
	snapBetween       bool
	pipelined         bool
}

func (d *l3) logf(f string, a ...any) { d.trace = append(d.trace, fmt.Sprintf(f, a...)) }

func (d *l3) fail(sig, f string, a ...any) {
	v18(d.rt, "follower."+sig, "%s\n  trace: %s", fmt.Sprintf(f, a...), strings.Join(d.trace, " ; "))
}

func (d *l3) cur() *leaderLog { return d.leaders[len(d.leaders)-1] }

// data returns a unique payload of varying size (size-limited reads behave
// differently for uniform and mixed entry sizes).
func (d *l3) data() string {
	d.seq++
	pad := []int{0, 0, 3, 40, 90}[rapid.IntRange(0, 4).Draw(d.rt, "pad")]
	return fmt.Sprintf("e%d", d.seq) + strings.Repeat("x", pad)
}

func newL3(rt *rapid.T) *l3 {
	d := &l3{rt: rt}
	d.ms = raft.NewMemoryStorage()
	cs := &pb.ConfState{Voters: []uint64{1, 2, 3}}
	if err := d.ms.ApplySnapshot(&pb.Snapshot{Metadata: &pb.SnapshotMetadata{Index: new(uint64(1)), Term: new(uint64(1)), ConfState: cs}}); err != nil {
		panic(err)
	}
	applyQuota := []uint64{0, 1, 40, 1 << 40}[rapid.IntRange(0, 3).Draw(rt, "applyquota")]
	rn, err := raft.NewRawNode(&raft.Config{ID: 1, ElectionTick: 1000, HeartbeatTick: 1, Storage: d.ms, MaxSizePerMsg: 1 << 40,
		MaxCommittedSizePerReady: applyQuota, MaxInflightMsgs: 16, AsyncStorageWrites: true, Logger: quiet{}})
	if err != nil {
		panic(err)
	}
	d.rn = rn
	d.ref = &refFollower{term: 0, log: &AbstractLog{Base: 1, BaseTerm: 1}, commit: 1}
	d.global = 1
	d.applied, d.nextApp = 1, 2
	first := &leaderLog{id: 2, term: 1, log: &AbstractLog{Base: 1, BaseTerm: 1}, commit: 1, match: 0}
	d.leaders = []*leaderLog{first}
	d.globalTerm, d.commitLeader = 1, first
	return d
}

// ------------------------------------------------------------------ script

func (d *l3) newLeader() {
	rt := d.rt
	prev := d.leaders[rapid.IntRange(0, len(d.leaders)-1).Draw(rt, "from")]
	if len(d.leaders) >= 2 && rapid.IntRange(0, 1).Draw(rt, "fromolder") == 1 {
		// prefer a leader other than the current one: its log may contain
		// entries the current leader's log replaced (the ABA shape)
		prev = d.leaders[rapid.IntRange(0, len(d.leaders)-2).Draw(rt, "older")]
	}
	lo := d.global
	// leader completeness: the new leader's log must contain the committed
	// prefix, i.e. agree with the log that committed index `global`.
	if t, err := prev.log.Term(lo); err != nil || t != d.globalTerm {
		prev = d.commitLeader
	}
	if prev.log.Last() < lo {
		return
	}
	cut := rapid.Uint64Range(lo, prev.log.Last()).Draw(rt, "cut")
	nl := &leaderLog{id: uint64(2 + rapid.IntRange(0, 1).Draw(rt, "lid")), term: d.cur().term + uint64(rapid.IntRange(1, 2).Draw(rt, "dt")),
		log: prev.log.Clone(), commit: d.global}
	nl.log.Ents = nl.log.Ents[:cut-nl.log.Base]
	n := rapid.IntRange(1, 3).Draw(rt, "noop")
	for i := 0; i < n; i++ {
		nl.log.AppendFrom([]*pb.Entry{mkEnt(nl.log.Last()+1, nl.term, d.data())})
	}
	d.leaders = append(d.leaders, nl)
	d.logf("newLeader(id %d term %d from term %d cut %d -> last %d)", nl.id, nl.term, prev.term, cut, nl.log.Last())
}

func (d *l3) leaderAppend() {
	c := d.cur()
	n := rapid.IntRange(1, 3).Draw(d.rt, "n")
	for i := 0; i < n; i++ {
		c.log.AppendFrom([]*pb.Entry{mkEnt(c.log.Last()+1, c.term, d.data())})
	}
	d.logf("leaderAppend(term %d -> last %d)", c.term, c.log.Last())
}

func (d *l3) advanceCommit() {
	c := d.cur()
	// a leader commits only entries of its own term (and everything before)
	var cands []uint64
	for i := max(c.commit, d.global) + 1; i <= c.log.Last(); i++ {
		if t, _ := c.log.Term(i); t == c.term {
			cands = append(cands, i)
		}
	}
	if len(cands) == 0 {
		return
	}
	c.commit = cands[rapid.IntRange(0, len(cands)-1).Draw(d.rt, "commit")]
	d.global = c.commit
	d.globalTerm, _ = c.log.Term(c.commit)
	d.commitLeader = c
	d.logf("commit(term %d -> %d)", c.term, c.commit)
}

func (d *l3) pickLeader() *leaderLog {
	if rapid.IntRange(0, 3).Draw(d.rt, "stale") == 0 {
		return d.leaders[rapid.IntRange(0, len(d.leaders)-1).Draw(d.rt, "which")]
	}
	return d.cur()
}

func (d *l3) sendApp() {
	l := d.pickLeader()
	prev := rapid.Uint64Range(l.log.Base, l.log.Last()).Draw(d.rt, "prev")
	switch rapid.IntRange(0, 3).Draw(d.rt, "prevmode") {
	case 0:
		if l.match >= l.log.Base && l.match <= l.log.Last() {
			prev = l.match
		}
	case 1, 2:
		// right at the follower's commit point: the message then carries the
		// leader's version of the follower's whole uncommitted tail
		if c := d.ref.commit; c >= l.log.Base && c <= l.log.Last() {
			prev = c
		}
	}
	pt, _ := l.log.Term(prev)
	k := uint64(rapid.IntRange(0, 4).Draw(d.rt, "k"))
	hi := min(prev+k, l.log.Last())
	ents, _ := l.log.Slice(prev+1, hi+1)
	var cl []*pb.Entry
	for _, e := range ents {
		cl = append(cl, mkEnt(e.GetIndex(), e.GetTerm(), string(e.GetData())))
	}
	m := &pb.Message{Type: pb.MsgApp.Enum(), From: new(l.id), To: new(uint64(1)), Term: new(l.term), Index: new(prev), LogTerm: new(pt), Entries: cl, Commit: new(l.commit)}
	d.logf("MsgApp(term %d prev (%d,%d) n=%d commit %d)", l.term, prev, pt, len(cl), l.commit)
	d.refApp(l, m)
	d.step(m)
	if rapid.IntRange(0, 9).Draw(d.rt, "readynow") < 7 {
		d.ready()
	}
}

func (d *l3) sendHeartbeat() {
	l := d.pickLeader()
	c := min(l.match, l.commit)
	m := &pb.Message{Type: pb.MsgHeartbeat.Enum(), From: new(l.id), To: new(uint64(1)), Term: new(l.term), Commit: new(c)}
	d.logf("MsgHeartbeat(term %d commit %d)", l.term, c)
	if d.refTerm(l.term) {
		if c > d.ref.commit {
			d.ref.commit = c
		}
	}
	d.step(m)
}

func (d *l3) sendSnap() {
	l := d.pickLeader()
	if l.commit <= l.log.Base {
		return
	}
	si := rapid.Uint64Range(l.log.Base+1, l.commit).Draw(d.rt, "snapindex")
	st, _ := l.log.Term(si)
	m := &pb.Message{Type: pb.MsgSnap.Enum(), From: new(l.id), To: new(uint64(1)), Term: new(l.term),
		Snapshot: &pb.Snapshot{Data: []byte("snap"), Metadata: &pb.SnapshotMetadata{Index: new(si), Term: new(st), ConfState: &pb.ConfState{Voters: []uint64{1, 2, 3}}}}}
	d.logf("MsgSnap(term %d snap (%d,%d))", l.term, si, st)
	if d.refTerm(l.term) && si > d.ref.commit {
		if t, err := d.ref.log.Term(si); err == nil && t == st {
			d.ref.commit = si
		} else {
			d.ref.log.Reset(si, st)
			d.ref.commit = si
			if len(d.appendQ) > 0 {
				d.snapBetween = true
			}
		}
	}
	d.step(m)
}

// refTerm applies the term rule; returns false if the message is stale.
func (d *l3) refTerm(t uint64) bool {
	if t < d.ref.term {
		return false
	}
	d.ref.term = t
	return true
}

// refApp is the textbook AppendEntries receiver.
func (d *l3) refApp(l *leaderLog, m *pb.Message) {
	if !d.refTerm(m.GetTerm()) {
		return
	}
	r := d.ref
	if m.GetIndex() < r.commit {
		return
	}
	if t, err := r.log.Term(m.GetIndex()); err != nil || t != m.GetLogTerm() {
		return
	}
	for i, e := range m.GetEntries() {
		if t, err := r.log.Term(e.GetIndex()); err == nil && t == e.GetTerm() {
			continue
		}
		if e.GetIndex() <= r.log.Last() {
			// conflict: truncation of a (necessarily uncommitted) tail
			if e.GetIndex() <= r.commit {
				d.fail("script_bug", "script asked to overwrite committed index %d", e.GetIndex())
			}
			if len(d.appendQ) > 0 {
				d.overwroteInFlight = true
			}
		}
		r.log.AppendFrom(m.GetEntries()[i:])
		break
	}
	lastNew := m.GetIndex() + uint64(len(m.GetEntries()))
	if c := min(m.GetCommit(), lastNew); c > r.commit {
		r.commit = c
	}
}

// ------------------------------------------------------------------ node side

func (d *l3) step(m *pb.Message) {
	if err := d.rn.Step(m); err != nil {
		d.fail("step_error", "Step(%v) returned %v", m.GetType(), err)
	}
	d.compare("after " + m.GetType().String())
}

func (d *l3) ready() {
	if !d.rn.HasReady() {
		return
	}
	rd := d.rn.Ready()
	for _, m := range rd.Messages {
		switch m.GetTo() {
		case raft.LocalAppendThread:
			d.appendQ = append(d.appendQ, m)
			if len(d.appendQ) >= 2 {
				d.pipelined = true
			}
		case raft.LocalApplyThread:
			d.checkApplyBatch(m.GetEntries())
			d.applyQ = append(d.applyQ, m)
		default:
			d.outgoing(m)
		}
	}
	d.logf("Ready(appendQ %d applyQ %d)", len(d.appendQ), len(d.applyQ))
	d.compare("after Ready")
}

// outgoing observes a message the follower sends to a leader.
func (d *l3) outgoing(m *pb.Message) {
	if m.GetType() != pb.MsgAppResp || m.GetReject() {
		return
	}
	if hs, _, _ := d.ms.InitialState(); hs.GetTerm() > m.GetTerm() {
		// the follower durably moved to a higher term: the (stale) leader
		// the message is addressed to can no longer rely on it
		return
	}
	for _, l := range d.leaders {
		if l.id == m.GetTo() && l.term == m.GetTerm() {
			// the acknowledged prefix must be durable and equal to that leader's log
			i := m.GetIndex()
			li, _ := d.ms.LastIndex()
			if i > li {
				d.fail("ack_not_durable", "follower acknowledges index %d to leader of term %d but its durable log ends at %d", i, l.term, li)
			}
			if i <= l.log.Last() {
				fi, _ := d.ms.FirstIndex()
				for j := max(fi, l.log.Base+1); j <= i; j++ {
					st, _ := d.ms.Term(j)
					lt, _ := l.log.Term(j)
					if st != lt {
						d.fail("ack_wrong_prefix", "follower acknowledges index %d to leader of term %d but durably holds term %d at %d where that leader has term %d", i, l.term, st, j, lt)
					}
				}
				if i > l.match {
					l.match = i
				}
			}
		}
	}
}

func (d *l3) checkApplyBatch(ents []*pb.Entry) {
	for _, e := range ents {
		if e.GetIndex() != d.nextApp {
			d.fail("apply_gap", "apply stream hands out index %d, expected %d", e.GetIndex(), d.nextApp)
		}
		d.nextApp++
		// must be durable and equal to the reference
		st, err := d.ms.Term(e.GetIndex())
		if err != nil || st != e.GetTerm() {
			d.fail("apply_not_durable", "entry (%d,%d) handed for application is not in the durable log (%d,%v)", e.GetIndex(), e.GetTerm(), st, err)
		}
		if we, err := d.ref.log.Slice(e.GetIndex(), e.GetIndex()+1); err == nil && !entEq(we[0], e) {
			d.fail("apply_wrong_entry", "entry handed for application at %d differs from the reference log", e.GetIndex())
		}
		if e.GetIndex() > d.ref.commit {
			d.fail("apply_beyond_commit", "entry %d handed for application beyond the reference commit %d", e.GetIndex(), d.ref.commit)
		}
	}
}

func (d *l3) appendThread() {
	if len(d.appendQ) == 0 {
		return
	}
	m := d.appendQ[0]
	d.appendQ = d.appendQ[1:]
	if s := m.GetSnapshot(); s != nil && s.GetMetadata().GetIndex() > 0 {
		if err := d.ms.ApplySnapshot(s); err != nil {
			d.fail("snapshot_out_of_date", "snapshot %d handed for persistence: %v", s.GetMetadata().GetIndex(), err)
		}
		d.applied = s.GetMetadata().GetIndex()
		d.nextApp = d.applied + 1
	}
	var cl []*pb.Entry
	for _, e := range m.GetEntries() {
		cl = append(cl, mkEnt(e.GetIndex(), e.GetTerm(), string(e.GetData())))
	}
	if err := d.ms.Append(cl); err != nil {
		d.fail("append_error", "Append: %v", err)
	}
	if m.Term != nil {
		_ = d.ms.SetHardState(&pb.HardState{Term: new(m.GetTerm()), Vote: new(m.GetVote()), Commit: new(m.GetCommit())})
	}
	for _, r := range m.GetResponses() {
		if r.GetTo() == 1 {
			d.selfQ[0] = append(d.selfQ[0], r)
		} else {
			d.outgoing(r)
		}
	}
	d.logf("appendThread(n=%d)", len(cl))
	d.compare("after the append thread wrote")
}

func (d *l3) applyThread() {
	if len(d.applyQ) == 0 {
		return
	}
	m := d.applyQ[0]
	d.applyQ = d.applyQ[1:]
	if n := len(m.GetEntries()); n > 0 {
		if li := m.GetEntries()[n-1].GetIndex(); li > d.applied {
			d.applied = li
		}
	}
	for _, r := range m.GetResponses() {
		d.selfQ[1] = append(d.selfQ[1], r)
	}
	d.logf("applyThread")
}

func (d *l3) selfDeliver(k int) {
	if len(d.selfQ[k]) == 0 {
		return
	}
	m := d.selfQ[k][0]
	d.selfQ[k] = d.selfQ[k][1:]
	if m.GetType() == pb.MsgStorageAppendResp && m.GetTerm() < d.ref.term {
		d.staleAck = true
	}
	d.logf("selfDeliver(%v term %d index %d)", m.GetType(), m.GetTerm(), m.GetIndex())
	d.step(m)
}

// drain lets the storage threads catch up completely.
func (d *l3) drain() {
	d.logf("drain")
	for i := 0; i < 50; i++ {
		switch {
		case len(d.selfQ[0]) > 0:
			d.selfDeliver(0)
		case len(d.selfQ[1]) > 0:
			d.selfDeliver(1)
		case len(d.appendQ) > 0:
			d.appendThread()
		case len(d.applyQ) > 0:
			d.applyThread()
		case d.rn.HasReady():
			d.ready()
		default:
			return
		}
	}
}

func (d *l3) compact() {
	fi, _ := d.ms.FirstIndex()
	li, _ := d.ms.LastIndex()
	st := d.rn.Status()
	hi := min(d.applied, li, st.Applied)
	if hi < fi {
		return
	}
	i := rapid.Uint64Range(fi, hi).Draw(d.rt, "compact")
	if err := d.ms.Compact(i); err != nil {
		d.fail("compact_error", "Compact(%d): %v", i, err)
	}
	d.logf("compact(%d)", i)
	d.compare("after compaction")
}

// compare checks raft's combined log view against the reference follower.
func (d *l3) compare(when string) {
	st := d.rn.VerifState()
	r := d.ref
	if st.Term != r.term && !(r.term == 0) {
		d.fail("term", "%s: term %d, reference %d", when, st.Term, r.term)
	}
	if st.LastIndex != r.log.Last() {
		d.fail("last_index", "%s: last index %d, reference %d (ref %s)", when, st.LastIndex, r.log.Last(), r.log)
	}
	if st.Commit != r.commit {
		d.fail("commit", "%s: commit %d, reference %d", when, st.Commit, r.commit)
	}
	lo := max(st.FirstIndex, r.log.Base+1)
	if st.LastIndex >= lo {
		got, err := d.rn.VerifLogEntries(lo, st.LastIndex+1)
		if err != nil {
			d.fail("slice_error", "%s: slice [%d,%d] failed: %v", when, lo, st.LastIndex, err)
		}
		want, _ := r.log.Slice(lo, st.LastIndex+1)
		if !entsEq(got, want) {
			d.fail("view_differs", "%s: the combined stable+unstable view [%d,%d] is %s but the reference log is %s", when, lo, st.LastIndex, fmtEnts(got), fmtEnts(want))
		}
	}
	for i := lo - 1; i <= st.LastIndex+5; i++ {
		gt, gerr := d.rn.VerifLogTerm(i)
		wt, werr := r.log.Term(i)
		if i+1 == st.FirstIndex && r.log.Base < i {
			// raft knows the term at first-1 only through storage's dummy entry
			wt, werr = r.log.Term(i)
		}
		if i < r.log.Base || i+1 < st.FirstIndex {
			continue
		}
		if !sameErr(gerr, werr) || (gerr == nil && gt != wt) {
			d.fail("term_at", "%s: term(%d) = (%d,%v), reference (%d,%v)", when, i, gt, gerr, wt, werr)
		}
	}
}

func fmtEnts(es []*pb.Entry) string {
	var sb strings.Builder
	for _, e := range es {
		fmt.Fprintf(&sb, "%d/%d ", e.GetIndex(), e.GetTerm())
	}
	return sb.String()
}

// TestC18Follower is driver L3.
const ruleFollower = "L3: one RawNode with AsyncStorageWrites fed by a scripted cluster (tree of leader logs; only MsgApp/MsgHeartbeat/MsgSnap a correct, possibly stale leader could send) with arbitrarily lagging append/apply threads and storage compaction; after every step the combined stable+unstable view (entries, term-at for all indexes, last index, commit) is compared with a reference follower built from the textbook AppendEntries/InstallSnapshot rules; acks must be durable prefixes of the leader's log, the apply stream gap-free, durable and within commit; non-trivial = in-flight unstable entries were overwritten, or a storage ack of an older term was delivered, or a snapshot was installed while appends were in flight; distinct = digest of the action trace"

func TestC18Follower(t *testing.T) {
	rep := report.New("C18", ruleFollower)
	defer rep.Write()
	runFollower(t, rep)
}

// TestC18 runs the three drivers with one merged report (what cmd/driver
// shards).
func TestC18(t *testing.T) {
	rep := report.New("C18", ruleMem+" || "+ruleView+" || "+ruleFollower)
	defer rep.Write()
	t.Run("L1", func(t *testing.T) { runMem(t, rep) })
	t.Run("L2", func(t *testing.T) { runView(t, rep) })
	t.Run("L3", func(t *testing.T) { runFollower(t, rep) })
}

func runFollower(t *testing.T, rep *report.R) { rapid.Check(t, followerProp(rep)) }

func followerProp(rep *report.R) func(*rapid.T) {
	failed := false
	return func(rt *rapid.T) {
		d := newL3(rt)
		defer func() {
			if r := recover(); r != nil {
				msg := fmt.Sprint(r)
				if strings.Contains(msg, "VIOLATION[") || strings.Contains(fmt.Sprintf("%T", r), "rapid") {
					panic(r)
				}
				stack := string(debug.Stack())
				if strings.Contains(stack, "go.etcd.io/raft/v3.") {
					d.fail("panic", "raft panicked: %s", msg)
				}
				panic(r)
			}
		}()
		n := rapid.IntRange(1, 80).Draw(rt, "steps")
		for i := 0; i < n; i++ {
			switch rapid.IntRange(0, 19).Draw(rt, "action") {
			case 0, 1, 2:
				d.newLeader()
			case 3, 4:
				d.leaderAppend()
			case 5:
				d.advanceCommit()
			case 6, 7, 8, 9, 10:
				d.sendApp()
			case 11:
				d.sendHeartbeat()
			case 12:
				d.sendSnap()
			case 13:
				d.ready()
			case 14, 15:
				d.appendThread()
			case 16:
				d.applyThread()
			case 17:
				d.selfDeliver(0)
				d.ready()
			case 18:
				d.selfDeliver(rapid.IntRange(0, 1).Draw(rt, "thread"))
			case 19:
				if rapid.IntRange(0, 2).Draw(rt, "drain") == 0 {
					d.drain()
				} else {
					d.compact()
				}
			}
		}
		if !failed {
			var cls []string
			if d.overwroteInFlight {
				cls = append(cls, "follower.overwrote_in_flight")
			}
			if d.staleAck {
				cls = append(cls, "follower.stale_term_ack")
			}
			if d.snapBetween {
				cls = append(cls, "follower.snapshot_while_appending")
			}
			if d.pipelined {
				cls = append(cls, "follower.pipelined_appends")
			}
			rep.Case(d.overwroteInFlight || d.staleAck || d.snapBetween, report.Digest(strings.Join(d.trace, ";")), cls,
				func() string { return "L3: " + strings.Join(d.trace, " ; ") })
		}
	}
}
