package logm

import (
	"fmt"
	"runtime/debug"
	"strings"
	"testing"

	"pgregory.net/rapid"

	"go.etcd.io/raft/v3"
	pb "go.etcd.io/raft/v3/raftpb"
	"verif/harness/report"
)

// ---------------------------------------------------------------------------
// Driver L2: the combined stable+unstable view (raftLog) through the
// build-tagged VerifLog wrapper. Writes handed out by acceptUnstable go into
// an in-order write queue to the backing MemoryStorage; their acknowledgements
// are delivered late, never, or after later writes were issued, and filtered
// by "epoch" exactly as raft.Step filters MsgStorageAppendResp by term.
// ---------------------------------------------------------------------------

type l2write struct {
	ents  []*pb.Entry
	snap  *pb.Snapshot
	epoch uint64
	// ack: last index/term of the whole log when the write was issued
	ackIndex, ackTerm uint64
}

type l2 struct {
	rt     *rapid.T
	ms     *raft.MemoryStorage
	l      *raft.VerifLog
	ref    *AbstractLog
	commit uint64
	epoch  uint64 // the node's term
	writes []l2write
	acks   []l2write
	seq    int
	trace  []string

	overwroteInFlight, staleAck, snapWhileWriting bool
}

func (d *l2) logf(f string, a ...any) { d.trace = append(d.trace, fmt.Sprintf(f, a...)) }
func (d *l2) fail(sig, f string, a ...any) {
	v18(d.rt, "view."+sig, "%s\n  trace: %s", fmt.Sprintf(f, a...), strings.Join(d.trace, " ; "))
}
func (d *l2) data() string {
	d.seq++
	pad := []int{0, 0, 3, 40, 90}[rapid.IntRange(0, 4).Draw(d.rt, "pad")]
	return fmt.Sprintf("v%d", d.seq) + strings.Repeat("x", pad)
}

func (d *l2) lastTerm() uint64 { t, _ := d.ref.Term(d.ref.Last()); return t }

func (d *l2) compare(when string) {
	fi, li := d.l.FirstIndex(), d.l.LastIndex()
	if li != d.ref.Last() {
		d.fail("last_index", "%s: lastIndex %d, reference %d", when, li, d.ref.Last())
	}
	lo := max(fi, d.ref.Base+1)
	for i := lo - 1; i <= li+5; i++ {
		if i+1 < fi || i < d.ref.Base {
			continue
		}
		gt, gerr := d.l.Term(i)
		wt, werr := d.ref.Term(i)
		if !sameErr(gerr, werr) || (gerr == nil && gt != wt) {
			d.fail("term_at", "%s: term(%d) = (%d,%v), reference (%d,%v); ref %s", when, i, gt, gerr, wt, werr, d.ref)
		}
	}
	if li >= lo {
		got, err := d.l.Slice(lo, li+1, ^uint64(0))
		if err != nil {
			d.fail("slice_error", "%s: slice(%d,%d): %v", when, lo, li+1, err)
		}
		want, _ := d.ref.Slice(lo, li+1)
		if !entsEq(got, want) {
			d.fail("view_differs", "%s: view [%d,%d] = %s, reference %s", when, lo, li, fmtEnts(got), fmtEnts(want))
		}
		// size-limited reads from a drawn position
		from := rapid.Uint64Range(lo, li).Draw(d.rt, "slicefrom")
		mx := []uint64{0, 1, 10, 25, 60, 120, 250}[rapid.IntRange(0, 6).Draw(d.rt, "slicemax")]
		lim, err := d.l.Slice(from, li+1, mx)
		if err != nil {
			d.fail("slice_error", "%s: slice(%d,%d,%d): %v", when, from, li+1, mx, err)
		}
		full, _ := d.ref.Slice(from, li+1)
		if msg := checkLimited(lim, full, mx); msg != "" {
			d.fail("slice_limit", "%s: slice(%d,%d,%d): %s", when, from, li+1, mx, msg)
		}
		ents, err := d.l.Entries(from, mx)
		if err != nil {
			d.fail("slice_error", "%s: entries(%d,%d): %v", when, from, mx, err)
		}
		if msg := checkLimited(ents, full, mx); msg != "" {
			d.fail("slice_limit", "%s: entries(%d,%d): %s", when, from, mx, msg)
		}
	}
	if d.l.Committed() != d.commit {
		d.fail("commit", "%s: committed %d, reference %d", when, d.l.Committed(), d.commit)
	}
}

func (d *l2) leaderAppend() {
	n := rapid.IntRange(1, 3).Draw(d.rt, "n")
	t := max(d.lastTerm(), d.epoch)
	if t == 0 {
		t = 1
	}
	d.epoch = max(d.epoch, t)
	var ents []*pb.Entry
	for i := 0; i < n; i++ {
		ents = append(ents, mkEnt(d.ref.Last()+1+uint64(i), t, d.data()))
	}
	d.l.Append(ents...)
	d.ref.AppendFrom(ents)
	d.logf("append(n=%d term %d)", n, t)
	d.compare("after append")
}

// followerAppend: a leader of a (possibly new) term sends a suffix that may
// conflict with the uncommitted tail.
func (d *l2) followerAppend() {
	prev := rapid.Uint64Range(max(d.commit, d.ref.Base), d.ref.Last()).Draw(d.rt, "prev")
	pt, _ := d.ref.Term(prev)
	bump := uint64(rapid.IntRange(0, 2).Draw(d.rt, "termbump"))
	lt := max(d.epoch, d.lastTerm()) + bump
	if lt == 0 {
		lt = 1
	}
	n := rapid.IntRange(0, 3).Draw(d.rt, "n")
	var ents []*pb.Entry
	keep := rapid.IntRange(0, 2).Draw(d.rt, "keep") // reuse this many existing entries first
	idx := prev + 1
	et := pt
	for i := 0; i < keep && idx <= d.ref.Last(); i++ {
		e, _ := d.ref.Slice(idx, idx+1)
		ents = append(ents, mkEnt(idx, e[0].GetTerm(), string(e[0].GetData())))
		et = e[0].GetTerm()
		idx++
	}
	for i := 0; i < n; i++ {
		nt := max(et, lt)
		if bump == 0 {
			nt = max(et, d.lastTerm())
			if idx <= d.ref.Last() {
				// same term: a leader never sends a different entry for an
				// index it already replicated; reuse what is there
				e, _ := d.ref.Slice(idx, idx+1)
				ents = append(ents, mkEnt(idx, e[0].GetTerm(), string(e[0].GetData())))
				et = e[0].GetTerm()
				idx++
				continue
			}
		}
		ents = append(ents, mkEnt(idx, nt, d.data()))
		et = nt
		idx++
	}
	committed := rapid.Uint64Range(d.commit, max(d.commit, prev+uint64(len(ents)))).Draw(d.rt, "lc")
	if bump > 0 {
		d.epoch = lt
	}
	// reference
	conflict := false
	for i, e := range ents {
		if t, err := d.ref.Term(e.GetIndex()); err == nil && t == e.GetTerm() {
			continue
		}
		if e.GetIndex() <= d.ref.Last() {
			conflict = true
			if len(d.writes) > 0 {
				d.overwroteInFlight = true
			}
		}
		d.ref.AppendFrom(ents[i:])
		break
	}
	lastNew := prev + uint64(len(ents))
	if c := min(committed, lastNew); c > d.commit {
		d.commit = c
	}
	gotLast, ok := d.l.MaybeAppend(lt, prev, pt, committed, ents)
	d.logf("maybeAppend(leader term %d prev (%d,%d) n=%d conflict=%v commit %d)", lt, prev, pt, len(ents), conflict, committed)
	if !ok || gotLast != lastNew {
		d.fail("maybe_append", "maybeAppend returned (%d,%v), expected (%d,true)", gotLast, ok, lastNew)
	}
	d.compare("after maybeAppend")
}

func (d *l2) issueWrite() {
	ents := d.l.NextUnstableEnts()
	snap := d.l.NextUnstableSnapshot()
	if len(ents) == 0 && snap == nil {
		return
	}
	var cl []*pb.Entry
	for _, e := range ents {
		cl = append(cl, mkEnt(e.GetIndex(), e.GetTerm(), string(e.GetData())))
	}
	d.l.AcceptUnstable()
	w := l2write{ents: cl, snap: snap, epoch: d.epoch, ackIndex: d.l.LastIndex()}
	w.ackTerm, _ = d.l.Term(w.ackIndex)
	d.writes = append(d.writes, w)
	d.logf("issueWrite(n=%d snap=%v epoch %d)", len(cl), snap != nil, d.epoch)
	d.compare("after acceptUnstable")
}

func (d *l2) completeWrite() {
	if len(d.writes) == 0 {
		return
	}
	w := d.writes[0]
	d.writes = d.writes[1:]
	if w.snap != nil {
		if err := d.ms.ApplySnapshot(w.snap); err != nil {
			d.fail("snapshot_out_of_date", "ApplySnapshot: %v", err)
		}
	}
	if err := d.ms.Append(w.ents); err != nil {
		d.fail("append_error", "Append: %v", err)
	}
	d.acks = append(d.acks, w)
	d.logf("completeWrite(n=%d)", len(w.ents))
	d.compare("after a storage write completed")
}

// deliverAck delivers one pending acknowledgement; reorder picks any of them
// instead of the oldest (C18: "possibly stale or reordered"). Acks are never
// lost: the storage threads must deliver their responses.
func (d *l2) deliverAck(reorder bool) {
	if len(d.acks) == 0 {
		return
	}
	k := 0
	if reorder {
		k = rapid.IntRange(0, len(d.acks)-1).Draw(d.rt, "ackpos")
		if k > 0 {
			d.logf("ackReordered(%d)", k)
		}
	}
	w := d.acks[k]
	d.acks = append(d.acks[:k:k], d.acks[k+1:]...)
	if w.epoch < d.epoch {
		// raft.Step drops the entry part of a MsgStorageAppendResp of an
		// earlier term; the snapshot part still counts
		d.staleAck = true
		d.logf("ackStale(epoch %d < %d)", w.epoch, d.epoch)
	} else if w.ackIndex != 0 {
		d.l.StableTo(w.ackIndex, w.ackTerm)
		d.logf("stableTo(%d,%d)", w.ackIndex, w.ackTerm)
	}
	if w.snap != nil {
		d.l.StableSnapTo(w.snap.GetMetadata().GetIndex())
	}
	d.compare("after a storage ack")
}

func (d *l2) restore() {
	idx := d.commit + uint64(rapid.IntRange(1, 3).Draw(d.rt, "ahead"))
	// a snapshot of the committed log of a strictly newer leader (an
	// (index,term) pair identifies one entry, so a snapshot in a term the log
	// already knows would have to agree with it)
	t := max(d.epoch, d.lastTerm()) + 1
	d.epoch = t
	if len(d.writes) > 0 {
		d.snapWhileWriting = true
	}
	d.l.Restore(&pb.Snapshot{Metadata: &pb.SnapshotMetadata{Index: new(idx), Term: new(t), ConfState: &pb.ConfState{Voters: []uint64{1}}}})
	d.ref.Reset(idx, t)
	d.commit = idx
	d.logf("restore(%d,%d)", idx, t)
	d.compare("after restore")
}

func (d *l2) commitTo() {
	if d.ref.Last() <= d.commit {
		return
	}
	c := rapid.Uint64Range(d.commit+1, d.ref.Last()).Draw(d.rt, "c")
	d.l.CommitTo(c)
	d.commit = c
	d.logf("commitTo(%d)", c)
}

func (d *l2) compactStorage() {
	fi, _ := d.ms.FirstIndex()
	li, _ := d.ms.LastIndex()
	hi := min(d.commit, li)
	if hi < fi || d.l.HasNextOrInProgressSnapshot() {
		return
	}
	i := rapid.Uint64Range(fi, hi).Draw(d.rt, "ci")
	// only a prefix the view reads from storage may be compacted (the
	// application compacts applied, hence stable, entries)
	off, _, _ := d.l.UnstableOffsets()
	if i >= off {
		return
	}
	if err := d.ms.Compact(i); err != nil {
		d.fail("compact_error", "Compact(%d): %v", i, err)
	}
	if i > d.ref.Base {
		d.ref.Compact(i)
	}
	d.logf("compact(%d)", i)
	d.compare("after compaction")
}

// TestC18View is driver L2.
const ruleView = "L2: programs of raftLog operations through VerifLog (leader append, follower maybeAppend with conflicting higher-term suffixes above the commit index, acceptUnstable feeding an in-order write queue to MemoryStorage, write completion, acks delivered late/never/filtered by term epoch like raft.Step, restore, storage compaction, commitTo); after every operation term-at for all indexes, the full range and size-limited slices/entries are compared with the abstract log; non-trivial = in-flight entries were overwritten, or an ack of an earlier epoch arrived, or a snapshot was restored while writes were in flight; distinct = digest of the program"

func TestC18View(t *testing.T) {
	rep := report.New("C18", ruleView)
	defer rep.Write()
	runView(t, rep)
}

func runView(t *testing.T, rep *report.R) { rapid.Check(t, viewProp(rep)) }

func viewProp(rep *report.R) func(*rapid.T) {
	return func(rt *rapid.T) {
		d := &l2{rt: rt, ms: raft.NewMemoryStorage(), ref: &AbstractLog{}}
		d.l = raft.NewVerifLog(d.ms, quiet{}, ^uint64(0))
		defer func() {
			if r := recover(); r != nil {
				msg := fmt.Sprint(r)
				if strings.Contains(msg, "VIOLATION[") || strings.Contains(fmt.Sprintf("%T", r), "rapid") {
					panic(r)
				}
				if strings.Contains(string(debug.Stack()), "go.etcd.io/raft/v3.") {
					d.fail("panic", "raft panicked: %s", msg)
				}
				panic(r)
			}
		}()
		n := rapid.IntRange(1, 60).Draw(rt, "ops")
		for i := 0; i < n; i++ {
			switch rapid.IntRange(0, 15).Draw(rt, "op") {
			case 0, 1, 2:
				d.leaderAppend()
			case 3, 4, 5, 6:
				d.followerAppend()
			case 7, 8, 9:
				d.issueWrite()
			case 10, 11:
				d.completeWrite()
			case 12:
				// acks of one storage thread are FIFO among themselves (Config
				// doc: messages to one target are processed in order); they are
				// "reordered" only relative to later writes. Observed while
				// building this: if the ack of a later entries-write overtakes
				// the ack of an earlier snapshot-write, lastIndex() regresses to
				// the snapshot index until the snapshot ack arrives.
				d.deliverAck(false)
			case 13:
				d.commitTo()
			case 14:
				d.restore()
			case 15:
				d.compactStorage()
			}
		}
		var cls []string
		if d.overwroteInFlight {
			cls = append(cls, "view.overwrote_in_flight")
		}
		if d.staleAck {
			cls = append(cls, "view.stale_epoch_ack")
		}
		if d.snapWhileWriting {
			cls = append(cls, "view.restore_while_writing")
		}
		rep.Case(d.overwroteInFlight || d.staleAck || d.snapWhileWriting, report.Digest(strings.Join(d.trace, ";")), cls,
			func() string { return "L2: " + strings.Join(d.trace, " ; ") })
	}
}
