// Package logm holds the model-based tests of the log storage views (C18):
// MemoryStorage (L1), the combined stable+unstable raftLog view through the
// build-tagged VerifLog wrapper (L2), and a single asynchronous RawNode fed by
// a scripted, internally consistent cluster (L3). The oracle is AbstractLog:
// a list of entries with a compacted prefix.
package logm

import (
	"errors"
	"fmt"

	"google.golang.org/protobuf/proto"

	"go.etcd.io/raft/v3"
	pb "go.etcd.io/raft/v3/raftpb"
)

// AbstractLog is the reference: entries Base+1..Base+len(Ents) and the term
// at Base (the compacted prefix / snapshot point).
type AbstractLog struct {
	Base     uint64
	BaseTerm uint64
	Ents     []*pb.Entry
}

func (a *AbstractLog) First() uint64 { return a.Base + 1 }
func (a *AbstractLog) Last() uint64  { return a.Base + uint64(len(a.Ents)) }

var (
	errCompacted   = raft.ErrCompacted
	errUnavailable = raft.ErrUnavailable
)

// Term answers like Storage.Term / raftLog.term.
func (a *AbstractLog) Term(i uint64) (uint64, error) {
	if i < a.Base {
		return 0, errCompacted
	}
	if i > a.Last() {
		return 0, errUnavailable
	}
	if i == a.Base {
		return a.BaseTerm, nil
	}
	return a.Ents[i-a.Base-1].GetTerm(), nil
}

// Slice returns entries [lo,hi) (no size limit).
func (a *AbstractLog) Slice(lo, hi uint64) ([]*pb.Entry, error) {
	if lo <= a.Base {
		return nil, errCompacted
	}
	if hi > a.Last()+1 {
		return nil, errUnavailable
	}
	return a.Ents[lo-a.Base-1 : hi-a.Base-1], nil
}

// AppendFrom overwrites from ents[0].Index (which must be in (Base, Last+1])
// and appends.
func (a *AbstractLog) AppendFrom(ents []*pb.Entry) {
	if len(ents) == 0 {
		return
	}
	idx := ents[0].GetIndex()
	a.Ents = append(a.Ents[:idx-a.Base-1:idx-a.Base-1], ents...)
}

func (a *AbstractLog) Compact(i uint64) {
	t, _ := a.Term(i)
	a.Ents = append([]*pb.Entry(nil), a.Ents[i-a.Base:]...)
	a.Base, a.BaseTerm = i, t
}

func (a *AbstractLog) Reset(index, term uint64) {
	a.Base, a.BaseTerm, a.Ents = index, term, nil
}

func (a *AbstractLog) Clone() *AbstractLog {
	return &AbstractLog{Base: a.Base, BaseTerm: a.BaseTerm, Ents: append([]*pb.Entry(nil), a.Ents...)}
}

func (a *AbstractLog) String() string {
	s := fmt.Sprintf("base=(%d,%d)", a.Base, a.BaseTerm)
	for _, e := range a.Ents {
		s += fmt.Sprintf(" %d/%d", e.GetIndex(), e.GetTerm())
	}
	return s
}

func entEq(a, b *pb.Entry) bool {
	return a.GetIndex() == b.GetIndex() && a.GetTerm() == b.GetTerm() && a.GetType() == b.GetType() && string(a.GetData()) == string(b.GetData())
}

func entsEq(a, b []*pb.Entry) bool {
	if len(a) != len(b) {
		return false
	}
	for i := range a {
		if !entEq(a[i], b[i]) {
			return false
		}
	}
	return true
}

func sizeOf(es []*pb.Entry) uint64 {
	var s uint64
	for _, e := range es {
		s += uint64(proto.Size(e))
	}
	return s
}

func mkEnt(index, term uint64, data string) *pb.Entry {
	return &pb.Entry{Index: new(index), Term: new(term), Data: []byte(data)}
}

func sameErr(a, b error) bool { return errors.Is(a, b) || (a == nil && b == nil) }

// checkLimited verifies that got is a legal size-limited answer for the full
// range want: a non-empty prefix whose total size is <= max unless it is a
// single entry.
func checkLimited(got, want []*pb.Entry, max uint64) string {
	if len(want) == 0 {
		if len(got) != 0 {
			return "non-empty answer for an empty range"
		}
		return ""
	}
	if len(got) == 0 {
		return "empty answer for a non-empty range"
	}
	if len(got) > len(want) || !entsEq(got, want[:len(got)]) {
		return "answer is not a prefix of the range"
	}
	if len(got) > 1 && sizeOf(got) > max {
		return fmt.Sprintf("answer of %d entries has size %d > limit %d", len(got), sizeOf(got), max)
	}
	return ""
}
