package logm

import (
	"testing"

	"pgregory.net/rapid"

	"verif/harness/report"
)

// Native fuzz targets (thorough tier): the same properties driven by Go's
// coverage-guided fuzzer through rapid.MakeFuzz. A crasher is saved under
// testdata/fuzz/<target>/ and is the replay unit.
func FuzzC18Mem(f *testing.F)      { f.Fuzz(rapid.MakeFuzz(memProp(report.New("C18", "fuzz")))) }
func FuzzC18View(f *testing.F)     { f.Fuzz(rapid.MakeFuzz(viewProp(report.New("C18", "fuzz")))) }
func FuzzC18Follower(f *testing.F) { f.Fuzz(rapid.MakeFuzz(followerProp(report.New("C18", "fuzz")))) }
