package logm

import (
	"fmt"
	"os"
	"strings"
	"testing"

	"pgregory.net/rapid"

	"go.etcd.io/raft/v3"
	pb "go.etcd.io/raft/v3/raftpb"
	"verif/harness/report"
)

// reportAs is the property under whose check these drivers run (C18, or C03 /
// C05 / C08 when cmd/driver runs the follower driver as part of their check).
func reportAs() string {
	if p := os.Getenv("VERIF_REPORT_AS"); p != "" {
		return p
	}
	return "C18"
}

func v18(t interface{ Fatalf(string, ...any) }, sig, format string, a ...any) {
	t.Fatalf("VIOLATION[%s/%s sig=%s step=0]: %s", reportAs(), sig, "c18."+sig, fmt.Sprintf(format, a...))
}

// msModel mirrors a MemoryStorage: the abstract log plus snapshot metadata.
type msModel struct {
	log       *AbstractLog
	snapIndex uint64
	snapTerm  uint64
}

// checkMS compares every query of ms with the model. Returns a (sig, msg)
// pair on disagreement.
func checkMS(ms *raft.MemoryStorage, m *msModel, limits []uint64) (string, string) {
	a := m.log
	fi, _ := ms.FirstIndex()
	li, _ := ms.LastIndex()
	if fi != a.First() || li != a.Last() {
		return "first_last", fmt.Sprintf("FirstIndex/LastIndex = %d/%d, model %d/%d (%s)", fi, li, a.First(), a.Last(), a)
	}
	lo := uint64(0)
	if a.Base >= 2 {
		lo = a.Base - 2
	}
	for i := lo; i <= a.Last()+2; i++ {
		gt, gerr := ms.Term(i)
		wt, werr := a.Term(i)
		if !sameErr(gerr, werr) || (gerr == nil && gt != wt) {
			return "term_at", fmt.Sprintf("Term(%d) = (%d,%v), model (%d,%v) (%s)", i, gt, gerr, wt, werr, a)
		}
	}
	for l := lo; l <= a.Last(); l++ {
		for h := l + 1; h <= a.Last()+1; h++ {
			want, werr := a.Slice(l, h)
			got, gerr := ms.Entries(l, h, ^uint64(0))
			if !sameErr(gerr, werr) {
				return "entries_error", fmt.Sprintf("Entries(%d,%d) err=%v, model err=%v (%s)", l, h, gerr, werr, a)
			}
			if gerr != nil {
				continue
			}
			if !entsEq(got, want) {
				return "entries_content", fmt.Sprintf("Entries(%d,%d) = %v, model %v", l, h, got, want)
			}
			for _, mx := range limits {
				lim, lerr := ms.Entries(l, h, mx)
				if lerr != nil {
					return "entries_error", fmt.Sprintf("Entries(%d,%d,%d) err=%v", l, h, mx, lerr)
				}
				if msg := checkLimited(lim, want, mx); msg != "" {
					return "entries_limit", fmt.Sprintf("Entries(%d,%d,%d): %s (%s)", l, h, mx, msg, a)
				}
			}
			// append-safety: appending to a result must not change later answers
			if len(got) > 0 && h <= a.Last() {
				_ = append(got, &pb.Entry{Index: new(uint64(999999)), Term: new(uint64(999999))})
				again, _ := ms.Entries(l, a.Last()+1, ^uint64(0))
				full, _ := a.Slice(l, a.Last()+1)
				if !entsEq(again, full) {
					return "append_safe", fmt.Sprintf("appending to the result of Entries(%d,%d) changed the storage's answer for [%d,%d)", l, h, l, a.Last()+1)
				}
			}
		}
	}
	snap, _ := ms.Snapshot()
	if snap.GetMetadata().GetIndex() != m.snapIndex || snap.GetMetadata().GetTerm() != m.snapTerm {
		return "snapshot_meta", fmt.Sprintf("Snapshot() = (%d,%d), model (%d,%d)", snap.GetMetadata().GetIndex(), snap.GetMetadata().GetTerm(), m.snapIndex, m.snapTerm)
	}
	return "", ""
}

// msOp is one mutation; apply executes it on both sides.
type msOp struct {
	kind  string
	index uint64   // append start / compact index / snapshot index
	terms []uint64 // append terms
	term  uint64   // snapshot term (ApplySnapshot)
	tag   int
}

func (o msOp) String() string {
	switch o.kind {
	case "append":
		return fmt.Sprintf("Append(from %d terms %v)", o.index, o.terms)
	case "compact":
		return fmt.Sprintf("Compact(%d)", o.index)
	case "create":
		return fmt.Sprintf("CreateSnapshot(%d)", o.index)
	}
	return fmt.Sprintf("ApplySnapshot(%d,%d)", o.index, o.term)
}

// applyOp runs op on ms and the model; returns a (sig,msg) on disagreement of
// the returned error.
func applyOp(ms *raft.MemoryStorage, m *msModel, o msOp) (string, string) {
	a := m.log
	switch o.kind {
	case "append":
		var ents []*pb.Entry
		for k, t := range o.terms {
			ents = append(ents, mkEnt(o.index+uint64(k), t, fmt.Sprintf("d%d.%d", o.tag, k)))
		}
		if err := ms.Append(ents); err != nil {
			return "append_error", fmt.Sprintf("%s returned %v", o, err)
		}
		// model: drop what is at or below the compaction point, overwrite the rest
		last := o.index + uint64(len(ents)) - 1
		if last < a.First() {
			return "", ""
		}
		if o.index < a.First() {
			ents = ents[a.First()-o.index:]
		}
		a.AppendFrom(ents)
	case "compact":
		err := ms.Compact(o.index)
		if o.index <= a.Base {
			if err != raft.ErrCompacted {
				return "compact_error", fmt.Sprintf("%s returned %v, want ErrCompacted", o, err)
			}
			return "", ""
		}
		if err != nil {
			return "compact_error", fmt.Sprintf("%s returned %v", o, err)
		}
		a.Compact(o.index)
	case "create":
		_, err := ms.CreateSnapshot(o.index, &pb.ConfState{Voters: []uint64{1}}, []byte("s"))
		if o.index <= m.snapIndex {
			if err != raft.ErrSnapOutOfDate {
				return "create_error", fmt.Sprintf("%s returned %v, want ErrSnapOutOfDate", o, err)
			}
			return "", ""
		}
		if err != nil {
			return "create_error", fmt.Sprintf("%s returned %v", o, err)
		}
		t, _ := a.Term(o.index)
		m.snapIndex, m.snapTerm = o.index, t
	case "apply":
		err := ms.ApplySnapshot(&pb.Snapshot{Metadata: &pb.SnapshotMetadata{Index: new(o.index), Term: new(o.term), ConfState: &pb.ConfState{Voters: []uint64{1}}}})
		if m.snapIndex != 0 && m.snapIndex >= o.index {
			if err != raft.ErrSnapOutOfDate {
				return "applysnap_error", fmt.Sprintf("%s returned %v, want ErrSnapOutOfDate", o, err)
			}
			return "", ""
		}
		if err != nil {
			return "applysnap_error", fmt.Sprintf("%s returned %v", o, err)
		}
		m.snapIndex, m.snapTerm = o.index, o.term
		a.Reset(o.index, o.term)
	}
	return "", ""
}

func newMS() (*raft.MemoryStorage, *msModel) {
	return raft.NewMemoryStorage(), &msModel{log: &AbstractLog{}}
}

// drawMSOp draws an operation that respects MemoryStorage's documented
// preconditions (no gap on append, compaction/snapshot index <= last index,
// snapshot index >= compaction point, terms non-decreasing).
func drawMSOp(rt *rapid.T, m *msModel, tag int) msOp {
	a := m.log
	switch rapid.IntRange(0, 9).Draw(rt, "op") {
	case 0, 1, 2, 3, 4:
		lo := uint64(1)
		if a.Base >= 2 {
			lo = a.Base - 1
		}
		idx := rapid.Uint64Range(lo, a.Last()+1).Draw(rt, "from")
		if rapid.IntRange(0, 2).Draw(rt, "tail") == 0 {
			idx = a.Last() + 1
		}
		n := rapid.IntRange(1, 4).Draw(rt, "n")
		prev := uint64(0)
		if idx >= 1 {
			if t, err := a.Term(idx - 1); err == nil {
				prev = t
			}
		}
		if prev == 0 {
			prev = a.BaseTerm
		}
		var terms []uint64
		t := prev
		for k := 0; k < n; k++ {
			t += uint64(rapid.IntRange(0, 1).Draw(rt, "bump"))
			if t == 0 {
				t = 1
			}
			terms = append(terms, t)
		}
		return msOp{kind: "append", index: idx, terms: terms, tag: tag}
	case 5, 6:
		lo := uint64(0)
		if a.Base >= 1 {
			lo = a.Base - 1
		}
		return msOp{kind: "compact", index: rapid.Uint64Range(lo, a.Last()).Draw(rt, "ci")}
	case 7, 8:
		return msOp{kind: "create", index: rapid.Uint64Range(a.Base, a.Last()).Draw(rt, "si")}
	default:
		idx := rapid.Uint64Range(1, a.Last()+3).Draw(rt, "ai")
		lt, _ := a.Term(a.Last())
		return msOp{kind: "apply", index: idx, term: lt + uint64(rapid.IntRange(0, 1).Draw(rt, "at")), tag: tag}
	}
}

// TestC18Mem: rapid programs over MemoryStorage (driver L1).
const ruleMem = "L1: programs of 1..25 MemoryStorage mutations (Append contiguous/overlapping/below the compaction point, Compact, CreateSnapshot, ApplySnapshot older/newer) respecting the documented preconditions; after every mutation FirstIndex/LastIndex, Term(i) for all i in [first-3,last+2], Entries(lo,hi,max) for all lo<hi<=last+1 with max in {inf,0,1,small}, snapshot metadata and append-safety are compared with the abstract log; non-trivial = an append overwrote below the previous last index and a compaction or snapshot happened; distinct = digest of the program"

func TestC18Mem(t *testing.T) {
	rep := report.New("C18", ruleMem)
	defer rep.Write()
	runMem(t, rep)
}

func runMem(t *testing.T, rep *report.R) { rapid.Check(t, memProp(rep)) }

func memProp(rep *report.R) func(*rapid.T) {
	failed := false
	return func(rt *rapid.T) {
		ms, m := newMS()
		n := rapid.IntRange(1, 25).Draw(rt, "ops")
		var prog []string
		overwrote, compacted, snapped := false, false, false
		for i := 0; i < n; i++ {
			op := drawMSOp(rt, m, i)
			prog = append(prog, op.String())
			if op.kind == "append" && op.index <= m.log.Last() && op.index+uint64(len(op.terms)) > m.log.First() {
				overwrote = true
			}
			if op.kind == "compact" && op.index > m.log.Base {
				compacted = true
			}
			if op.kind == "apply" || op.kind == "create" {
				snapped = true
			}
			sig, msg := applyOp(ms, m, op)
			if sig == "" {
				sig, msg = checkMS(ms, m, []uint64{0, 1, 12, 40})
			}
			if sig != "" {
				failed = true
				v18(rt, "mem."+sig, "%s (program: %s)", msg, strings.Join(prog, " ; "))
			}
		}
		if !failed {
			var cls []string
			if overwrote {
				cls = append(cls, "mem.overwrite")
			}
			if compacted {
				cls = append(cls, "mem.compacted")
			}
			if snapped {
				cls = append(cls, "mem.snapshot")
			}
			rep.Case(overwrote && (compacted || snapped), report.Digest(strings.Join(prog, ";")), cls, func() string { return "L1: " + strings.Join(prog, " ; ") })
		}
	}
}

// TestC18MemExhaustive enumerates every program of length <= maxLen over a
// small alphabet (indexes 1..4, terms 1..3).
func TestC18MemExhaustive(t *testing.T) {
	maxLen := 4
	if os.Getenv("VERIF_TIER") == "thorough" {
		maxLen = 5
	}
	rep := report.New("C18", fmt.Sprintf("L1 exhaustive: every program of length <= %d over the alphabet {Append(from i, 1-2 entries, term t) for i in 1..4, t in 1..3; Compact(i), CreateSnapshot(i) for i in 0..4; ApplySnapshot(i,t) for i in 1..4, t in 1..3}, skipping operations whose documented precondition does not hold in the current state; all queries compared after every mutation; every program is distinct by construction; non-trivial = the program contains an accepted overwrite or compaction", maxLen))
	defer rep.Write()
	var alphabet []msOp
	for i := uint64(1); i <= 4; i++ {
		for tm := uint64(1); tm <= 3; tm++ {
			alphabet = append(alphabet, msOp{kind: "append", index: i, terms: []uint64{tm}})
			alphabet = append(alphabet, msOp{kind: "append", index: i, terms: []uint64{tm, tm}})
			alphabet = append(alphabet, msOp{kind: "apply", index: i, term: tm})
		}
	}
	for i := uint64(0); i <= 4; i++ {
		alphabet = append(alphabet, msOp{kind: "compact", index: i}, msOp{kind: "create", index: i})
	}
	programs, nontriv := 0, 0
	var prog []msOp
	// legal reports whether op respects the preconditions in model state m.
	legal := func(m *msModel, o msOp) bool {
		a := m.log
		switch o.kind {
		case "append":
			if o.index > a.Last()+1 {
				return false // gap: documented panic
			}
			// terms must not decrease w.r.t. the predecessor
			if o.index >= 1 {
				if pt, err := a.Term(o.index - 1); err == nil && o.terms[0] < pt {
					return false
				}
			}
			return true
		case "compact":
			return o.index <= a.Last()
		case "create":
			return o.index <= a.Last() && o.index >= a.Base
		case "apply":
			return true
		}
		return false
	}
	var rec func(depth int)
	rec = func(depth int) {
		if depth > 0 {
			// replay the program from scratch
			ms, m := newMS()
			interesting := false
			for k, o := range prog {
				o.tag = k
				if o.kind == "append" && o.index <= m.log.Last() && o.index+uint64(len(o.terms)) > m.log.First() {
					interesting = true
				}
				if o.kind == "compact" && o.index > m.log.Base {
					interesting = true
				}
				if sig, msg := applyOp(ms, m, o); sig != "" {
					v18(t, "mem."+sig, "%s (program %v)", msg, prog)
				}
				if k == len(prog)-1 {
					if sig, msg := checkMS(ms, m, []uint64{0, 12}); sig != "" {
						v18(t, "mem."+sig, "%s (program %v)", msg, prog)
					}
				}
			}
			programs++
			if interesting {
				nontriv++
			}
		}
		if depth == maxLen {
			return
		}
		// state after the current program (recomputed on the model only)
		ms, m := newMS()
		for k, o := range prog {
			o.tag = k
			applyOp(ms, m, o)
		}
		for _, o := range alphabet {
			if !legal(m, o) {
				continue
			}
			prog = append(prog, o)
			rec(depth + 1)
			prog = prog[:len(prog)-1]
		}
	}
	rec(0)
	rep.Evaluations = programs
	rep.NonTrivial = nontriv
	rep.DistinctCount = nontriv
	rep.Extra["exhaustive_part"] = true
	rep.Extra["exhaustive_domain"] = fmt.Sprintf("all legal MemoryStorage programs of length <= %d over a %d-operation alphabet", maxLen, len(alphabet))
	rep.Extra["programs"] = programs
	rep.Samples = append(rep.Samples, "L1 exhaustive: e.g. Append(from 1 terms [1 1]) ; Compact(1) ; Append(from 2 terms [2]) ; CreateSnapshot(2)")
	t.Logf("exhaustive: %d programs, %d non-trivial", programs, nontriv)
}
