// Package refmodel contains small, obviously-correct reference models written
// from the property statements (not from the implementation). They are the
// oracles against which the implementation is compared.
package refmodel

import (
	"math"
	"sort"
)

// VoteResult mirrors the three possible outcomes of a vote.
type VoteResult int

const (
	Pending VoteResult = iota
	Lost
	Won
)

func (v VoteResult) String() string {
	switch v {
	case Won:
		return "Won"
	case Lost:
		return "Lost"
	}
	return "Pending"
}

// Quorum is the size of a strict majority of n.
func Quorum(n int) int { return n/2 + 1 }

// CommittedIndex is the largest index acknowledged by a strict majority of
// set; missing voters count as 0; the empty set imposes no constraint (∞).
// Definition used: max{x : |{v in set : ack(v) >= x}| >= quorum}, searched over
// the candidate values {0} ∪ acks.
func CommittedIndex(set []uint64, ack map[uint64]uint64) uint64 {
	if len(set) == 0 {
		return math.MaxUint64
	}
	q := Quorum(len(set))
	best := uint64(0)
	for _, cand := range set {
		x := ack[cand]
		cnt := 0
		for _, v := range set {
			if ack[v] >= x {
				cnt++
			}
		}
		if cnt >= q && x > best {
			best = x
		}
	}
	return best
}

// JointCommittedIndex is the minimum over both sets.
func JointCommittedIndex(in, out []uint64, ack map[uint64]uint64) uint64 {
	a, b := CommittedIndex(in, ack), CommittedIndex(out, ack)
	if a < b {
		return a
	}
	return b
}

// Vote computes the outcome of a vote in one set. votes: present=true/false,
// absent = not yet voted.
func Vote(set []uint64, votes map[uint64]bool) VoteResult {
	if len(set) == 0 {
		return Won
	}
	yes, missing := 0, 0
	for _, v := range set {
		g, ok := votes[v]
		switch {
		case !ok:
			missing++
		case g:
			yes++
		}
	}
	q := Quorum(len(set))
	if yes >= q {
		return Won
	}
	if yes+missing < q {
		return Lost
	}
	return Pending
}

// JointVote: Won iff both Won, Lost iff either Lost, else Pending.
func JointVote(in, out []uint64, votes map[uint64]bool) VoteResult {
	a, b := Vote(in, votes), Vote(out, votes)
	if a == Lost || b == Lost {
		return Lost
	}
	if a == Won && b == Won {
		return Won
	}
	return Pending
}

// HasMajority reports whether have contains a strict majority of set (true
// for the empty set).
func HasMajority(set []uint64, have map[uint64]bool) bool {
	if len(set) == 0 {
		return true
	}
	n := 0
	for _, v := range set {
		if have[v] {
			n++
		}
	}
	return n >= Quorum(len(set))
}

// SortedKeys returns the keys of a set in ascending order.
func SortedKeys(m map[uint64]bool) []uint64 {
	out := make([]uint64, 0, len(m))
	for k, v := range m {
		if v {
			out = append(out, k)
		}
	}
	sort.Slice(out, func(i, j int) bool { return out[i] < out[j] })
	return out
}
