package refmodel

import (
	"errors"
	"fmt"
	"sort"

	pb "go.etcd.io/raft/v3/raftpb"
)

// Conf is the set-based specification of a raft membership configuration.
// Members are exactly Voters ∪ Outgoing ∪ Learners ∪ LearnersNext.
type Conf struct {
	Voters, Outgoing, Learners, LearnersNext map[uint64]bool
	AutoLeave                                bool
}

func NewConf() Conf {
	return Conf{Voters: map[uint64]bool{}, Outgoing: map[uint64]bool{}, Learners: map[uint64]bool{}, LearnersNext: map[uint64]bool{}}
}

func cp(m map[uint64]bool) map[uint64]bool {
	o := make(map[uint64]bool, len(m))
	for k, v := range m {
		if v {
			o[k] = true
		}
	}
	return o
}

func (c Conf) Clone() Conf {
	return Conf{Voters: cp(c.Voters), Outgoing: cp(c.Outgoing), Learners: cp(c.Learners), LearnersNext: cp(c.LearnersNext), AutoLeave: c.AutoLeave}
}

func (c Conf) Joint() bool { return len(c.Outgoing) > 0 }

func (c Conf) IsMember(id uint64) bool {
	return c.Voters[id] || c.Outgoing[id] || c.Learners[id] || c.LearnersNext[id]
}

// IsVoter: in either voter set.
func (c Conf) IsVoter(id uint64) bool { return c.Voters[id] || c.Outgoing[id] }

func (c Conf) Members() []uint64 {
	m := map[uint64]bool{}
	for _, s := range []map[uint64]bool{c.Voters, c.Outgoing, c.Learners, c.LearnersNext} {
		for k := range s {
			m[k] = true
		}
	}
	return SortedKeys(m)
}

func (c Conf) VoterList() []uint64    { return SortedKeys(c.Voters) }
func (c Conf) OutgoingList() []uint64 { return SortedKeys(c.Outgoing) }

func (c Conf) String() string {
	s := fmt.Sprintf("voters=%v", SortedKeys(c.Voters))
	if len(c.Outgoing) > 0 {
		s += fmt.Sprintf("&&%v", SortedKeys(c.Outgoing))
	}
	if len(c.Learners) > 0 {
		s += fmt.Sprintf(" learners=%v", SortedKeys(c.Learners))
	}
	if len(c.LearnersNext) > 0 {
		s += fmt.Sprintf(" learners_next=%v", SortedKeys(c.LearnersNext))
	}
	if c.AutoLeave {
		s += " autoleave"
	}
	return s
}

// Key is a canonical string usable as a map key.
func (c Conf) Key() string { return c.String() }

func eqSet(a, b map[uint64]bool) bool {
	if len(a) != len(b) {
		return false
	}
	for k := range a {
		if !b[k] {
			return false
		}
	}
	return true
}

func (c Conf) Equal(o Conf) bool {
	return eqSet(c.Voters, o.Voters) && eqSet(c.Outgoing, o.Outgoing) && eqSet(c.Learners, o.Learners) &&
		eqSet(c.LearnersNext, o.LearnersNext) && c.AutoLeave == o.AutoLeave
}

// ConfState converts to the protobuf representation (sorted slices).
func (c Conf) ConfState() *pb.ConfState {
	al := c.AutoLeave
	return &pb.ConfState{
		Voters:         nilIfEmpty(SortedKeys(c.Voters)),
		VotersOutgoing: nilIfEmpty(SortedKeys(c.Outgoing)),
		Learners:       nilIfEmpty(SortedKeys(c.Learners)),
		LearnersNext:   nilIfEmpty(SortedKeys(c.LearnersNext)),
		AutoLeave:      &al,
	}
}

func nilIfEmpty(s []uint64) []uint64 {
	if len(s) == 0 {
		return nil
	}
	return s
}

// FromConfState builds a Conf from a ConfState.
func FromConfState(cs *pb.ConfState) Conf {
	c := NewConf()
	for _, id := range cs.GetVoters() {
		c.Voters[id] = true
	}
	for _, id := range cs.GetVotersOutgoing() {
		c.Outgoing[id] = true
	}
	for _, id := range cs.GetLearners() {
		c.Learners[id] = true
	}
	for _, id := range cs.GetLearnersNext() {
		c.LearnersNext[id] = true
	}
	c.AutoLeave = cs.GetAutoLeave()
	return c
}

// EqualConfState compares with a ConfState (as sets).
func (c Conf) EqualConfState(cs *pb.ConfState) bool {
	return c.Equal(FromConfState(cs))
}

// CheckInvariants verifies the invariants the property C13 lists.
func (c Conf) CheckInvariants() error {
	for id := range c.Learners {
		if c.Voters[id] || c.Outgoing[id] {
			return fmt.Errorf("%d is learner and voter", id)
		}
	}
	for id := range c.LearnersNext {
		if !c.Outgoing[id] {
			return fmt.Errorf("%d staged learner but not outgoing voter", id)
		}
		if c.Learners[id] {
			return fmt.Errorf("%d staged learner and learner", id)
		}
	}
	if len(c.Voters) == 0 {
		return errors.New("no voters")
	}
	if !c.Joint() {
		if len(c.LearnersNext) > 0 {
			return errors.New("learners_next outside joint")
		}
		if c.AutoLeave {
			return errors.New("autoleave outside joint")
		}
	}
	return nil
}

// Single is one membership operation.
type Single struct {
	Type pb.ConfChangeType
	ID   uint64
}

func (c *Conf) applySingles(ss []Single) error {
	for _, s := range ss {
		if s.ID == 0 {
			continue
		}
		switch s.Type {
		case pb.ConfChangeAddNode:
			delete(c.Learners, s.ID)
			delete(c.LearnersNext, s.ID)
			c.Voters[s.ID] = true
		case pb.ConfChangeAddLearnerNode:
			if c.Learners[s.ID] {
				continue
			}
			delete(c.Voters, s.ID)
			delete(c.LearnersNext, s.ID)
			if c.Outgoing[s.ID] {
				c.LearnersNext[s.ID] = true
			} else {
				c.Learners[s.ID] = true
			}
		case pb.ConfChangeRemoveNode:
			delete(c.Voters, s.ID)
			delete(c.Learners, s.ID)
			delete(c.LearnersNext, s.ID)
		case pb.ConfChangeUpdateNode:
		default:
			return fmt.Errorf("unexpected conf type %d", s.Type)
		}
	}
	if len(c.Voters) == 0 {
		return errors.New("removed all voters")
	}
	return nil
}

func symdiff(a, b map[uint64]bool) int {
	n := 0
	for k := range a {
		if !b[k] {
			n++
		}
	}
	for k := range b {
		if !a[k] {
			n++
		}
	}
	return n
}

// Simple applies a simple change; the receiver is unchanged.
func (c Conf) Simple(ss ...Single) (Conf, error) {
	if c.Joint() {
		return Conf{}, errors.New("can't apply simple config change in joint config")
	}
	n := c.Clone()
	if err := n.applySingles(ss); err != nil {
		return Conf{}, err
	}
	if symdiff(c.Voters, n.Voters) > 1 {
		return Conf{}, errors.New("more than one voter changed without entering joint config")
	}
	return n, nil
}

// EnterJoint enters a joint configuration.
func (c Conf) EnterJoint(autoLeave bool, ss ...Single) (Conf, error) {
	if c.Joint() {
		return Conf{}, errors.New("config is already joint")
	}
	if len(c.Voters) == 0 {
		return Conf{}, errors.New("can't make a zero-voter config joint")
	}
	n := c.Clone()
	n.Outgoing = cp(c.Voters)
	if err := n.applySingles(ss); err != nil {
		return Conf{}, err
	}
	n.AutoLeave = autoLeave
	return n, nil
}

// LeaveJoint leaves a joint configuration.
func (c Conf) LeaveJoint() (Conf, error) {
	if !c.Joint() {
		return Conf{}, errors.New("can't leave a non-joint config")
	}
	n := c.Clone()
	for id := range n.LearnersNext {
		n.Learners[id] = true
	}
	n.LearnersNext = map[uint64]bool{}
	n.Outgoing = map[uint64]bool{}
	n.AutoLeave = false
	return n, nil
}

// Kind of a V2 change, as documented on ConfChangeV2/ConfChangeTransition.
type Kind int

const (
	KindSimple Kind = iota
	KindEnterJoint
	KindLeaveJoint
)

// Classify decides how a ConfChangeV2 is to be applied: zero changes with
// the Auto transition leave a joint config; more than one change, or an
// explicitly requested joint transition, enter a joint config (auto-leave
// unless JointExplicit); a single change with Auto is simple.
func Classify(cc *pb.ConfChangeV2) (k Kind, autoLeave bool) {
	tr := cc.GetTransition()
	n := len(cc.GetChanges())
	if tr == pb.ConfChangeTransitionAuto && n == 0 {
		return KindLeaveJoint, false
	}
	if tr != pb.ConfChangeTransitionAuto || n > 1 {
		return KindEnterJoint, tr != pb.ConfChangeTransitionJointExplicit
	}
	return KindSimple, false
}

func Singles(cc *pb.ConfChangeV2) []Single {
	var ss []Single
	for _, s := range cc.GetChanges() {
		ss = append(ss, Single{Type: s.GetType(), ID: s.GetNodeId()})
	}
	return ss
}

// Apply applies a V2 change according to Classify.
func (c Conf) Apply(cc *pb.ConfChangeV2) (Conf, error) {
	k, al := Classify(cc)
	switch k {
	case KindLeaveJoint:
		return c.LeaveJoint()
	case KindEnterJoint:
		return c.EnterJoint(al, Singles(cc)...)
	}
	return c.Simple(Singles(cc)...)
}

// SortU64 sorts in place and returns s.
func SortU64(s []uint64) []uint64 {
	sort.Slice(s, func(i, j int) bool { return s[i] < s[j] })
	return s
}
