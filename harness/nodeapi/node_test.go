// Package nodeapi drives the channel-based raft.Node wrapper (node.go): the
// simulator in harness/sim owns the schedule by using RawNode directly, so
// node.run - the goroutine that multiplexes proposals, messages, ticks,
// Ready/Advance and conf changes - is never executed there. Here a small
// cluster of real Nodes (real goroutines) is driven by one harness goroutine
// whose operations are rapid draws. The schedule inside node.run is not fully
// owned (Go's select picks among ready channels), so a failure may not
// replay exactly; the oracles are therefore safety-only statements that hold
// for every schedule, and the history is printed with the violation.
package nodeapi

import (
	"bytes"
	"context"
	"errors"
	"fmt"
	"os"
	"runtime"
	"strings"
	"sync"
	"testing"
	"time"

	"google.golang.org/protobuf/proto"
	"pgregory.net/rapid"

	"go.etcd.io/raft/v3"
	pb "go.etcd.io/raft/v3/raftpb"
	"verif/harness/report"
)

func reportAs() string {
	if p := os.Getenv("VERIF_REPORT_AS"); p != "" {
		return p
	}
	return "C20"
}

func viol(t interface{ Fatalf(string, ...any) }, sig, format string, a ...any) {
	t.Fatalf("VIOLATION[%s/node.%s sig=%s step=0]: %s", reportAs(), sig, "node."+sig, fmt.Sprintf(format, a...))
}

// panicLog records logger panics raised inside node.run and ends that
// goroutine instead of the process.
type panicLog struct {
	mu  sync.Mutex
	msg string
}

func (l *panicLog) set(s string) {
	l.mu.Lock()
	if l.msg == "" {
		l.msg = s
	}
	l.mu.Unlock()
}
func (l *panicLog) get() string { l.mu.Lock(); defer l.mu.Unlock(); return l.msg }

type qlog struct{ p *panicLog }

func (qlog) Debug(v ...any)              {}
func (qlog) Debugf(f string, v ...any)   {}
func (qlog) Error(v ...any)              {}
func (qlog) Errorf(f string, v ...any)   {}
func (qlog) Info(v ...any)               {}
func (qlog) Infof(f string, v ...any)    {}
func (qlog) Warning(v ...any)            {}
func (qlog) Warningf(f string, v ...any) {}
func (l qlog) Fatal(v ...any)            { l.p.set(fmt.Sprint(v...)); runtime.Goexit() }
func (l qlog) Fatalf(f string, v ...any) { l.p.set(fmt.Sprintf(f, v...)); runtime.Goexit() }
func (l qlog) Panic(v ...any)            { l.p.set(fmt.Sprint(v...)); runtime.Goexit() }
func (l qlog) Panicf(f string, v ...any) { l.p.set(fmt.Sprintf(f, v...)); runtime.Goexit() }

type nn struct {
	id      uint64
	n       raft.Node
	ms      *raft.MemoryStorage
	up      bool
	inc     int
	applied uint64 // application's applied index (volatile and durable: the app persists with each Ready)
	cs      *pb.ConfState
	lastHS  *pb.HardState // exposed in this incarnation
	opts    struct{ prevote, checkq bool }
}

type proposal struct {
	payload string
	outcome string // "ok", "dropped", "unknown"
	seen    int
}

type cluster struct {
	rt      *rapid.T
	nodes   []*nn
	net     []*pb.Message
	props   map[string]*proposal
	seq     int
	reg     map[uint64]*pb.Entry // first entry seen applied at an index
	maxCom  uint64               // highest commit index exposed by any node
	reads   map[string]uint64    // read ctx -> maxCom at issue
	plog    *panicLog
	trace   []string
	classes map[string]bool
}

func (c *cluster) logf(f string, a ...any) { c.trace = append(c.trace, fmt.Sprintf(f, a...)) }
func (c *cluster) fail(sig, f string, a ...any) {
	viol(c.rt, sig, "%s\n  history: %s", fmt.Sprintf(f, a...), strings.Join(c.trace, " ; "))
}

func (c *cluster) config(x *nn) *raft.Config {
	return &raft.Config{ID: x.id, ElectionTick: 5, HeartbeatTick: 1, Storage: x.ms, MaxSizePerMsg: 1 << 20, MaxInflightMsgs: 8,
		PreVote: x.opts.prevote, CheckQuorum: x.opts.checkq, Applied: x.applied, Logger: qlog{c.plog},
		MaxUncommittedEntriesSize: 200}
}

func newCluster(rt *rapid.T) *cluster {
	c := &cluster{rt: rt, props: map[string]*proposal{}, reg: map[uint64]*pb.Entry{}, reads: map[string]uint64{}, plog: &panicLog{}, classes: map[string]bool{}}
	pv, cq := rapid.Bool().Draw(rt, "prevote"), rapid.Bool().Draw(rt, "checkq")
	cs := &pb.ConfState{Voters: []uint64{1, 2, 3}}
	for id := uint64(1); id <= 4; id++ {
		x := &nn{id: id, ms: raft.NewMemoryStorage()}
		x.opts.prevote, x.opts.checkq = pv, cq
		// all four storages start from the same snapshot at index 1 (node 4
		// is a spare that may be added as a learner later)
		if err := x.ms.ApplySnapshot(&pb.Snapshot{Metadata: &pb.SnapshotMetadata{Index: new(uint64(1)), Term: new(uint64(1)), ConfState: cs}}); err != nil {
			panic(err)
		}
		x.applied, x.cs = 1, cs
		c.nodes = append(c.nodes, x)
		c.start(x)
	}
	return c
}

func (c *cluster) start(x *nn) {
	x.n = raft.RestartNode(c.config(x))
	x.up, x.lastHS = true, nil
	x.inc++
}

func (c *cluster) stopAll() {
	for _, x := range c.nodes {
		if x.up {
			c.stop(x)
		}
	}
}

func (c *cluster) stop(x *nn) {
	done := make(chan struct{})
	go func() { x.n.Stop(); close(done) }()
	select {
	case <-done:
	case <-time.After(2 * time.Second):
		// node.run is gone (logger panic) - nothing to wait for
	}
	x.up = false
}

func ctxFor(d time.Duration) (context.Context, context.CancelFunc) {
	return context.WithTimeout(context.Background(), d)
}

// call runs a Node method that blocks until node.run takes part (Advance,
// ApplyConfChange): if node.run is gone (a logger panic ended it) that is a
// violation; if it merely does not answer in time (an overloaded machine)
// the case is abandoned as inconclusive.
func (c *cluster) call(what string, f func()) {
	done := make(chan struct{})
	go func() { f(); close(done) }()
	select {
	case <-done:
	case <-time.After(5 * time.Second):
		c.checkPanic()
		c.rt.Skipf("node.run did not take part in %s within 5s (inconclusive)", what)
	}
}

func (c *cluster) checkPanic() {
	if m := c.plog.get(); m != "" {
		c.fail("panic", "raft panicked inside node.run: %s", m)
	}
}

// status is also the way to synchronise with node.run: when it returns, the
// loop has consumed everything the harness handed over before.
func (c *cluster) status(x *nn) (raft.Status, bool) {
	ch := make(chan raft.Status, 1)
	go func() { ch <- x.n.Status() }()
	select {
	case st := <-ch:
		return st, true
	case <-time.After(500 * time.Millisecond):
		c.checkPanic()
		return raft.Status{}, false
	}
}

func (c *cluster) propose(x *nn, size int) {
	st, ok := c.status(x)
	if !ok || st.Lead == raft.None {
		return // Propose would block until a leader is known
	}
	c.seq++
	payload := fmt.Sprintf("p%d.", c.seq) + strings.Repeat("x", size)
	p := &proposal{payload: payload}
	c.props[payload] = p
	ctx, cancel := ctxFor(300 * time.Millisecond)
	if rapid.IntRange(0, 3).Draw(c.rt, "expired") == 0 {
		// the caller's deadline expires while the proposal is on its way to
		// node.run: whatever Propose returns must still be the truth
		cancel()
		c.classes["node.propose_with_expired_context"] = true
	}
	err := x.n.Propose(ctx, []byte(payload))
	cancel()
	switch {
	case err == nil:
		p.outcome = "ok"
	case errors.Is(err, raft.ErrProposalDropped):
		p.outcome = "dropped"
		c.classes["node.proposal_dropped"] = true
	default:
		p.outcome = "unknown"
	}
	c.logf("Propose(%d %s)=%s", x.id, payload[:min(len(payload), 6)], p.outcome)
}

func (c *cluster) step(x *nn, m *pb.Message) {
	ctx, cancel := ctxFor(300 * time.Millisecond)
	_ = x.n.Step(ctx, m)
	cancel()
}

func clone(m *pb.Message) *pb.Message { return proto.Clone(m).(*pb.Message) }

// ready takes one Ready (if any shows up in time) and handles it completely,
// in the documented order.
func (c *cluster) ready(x *nn) bool {
	var rd raft.Ready
	// Status() returns once node.run is back at its select with everything
	// handed over so far consumed; a Ready, if there is one, is then on offer
	// within microseconds
	if _, ok := c.status(x); !ok {
		return false
	}
	tm := time.NewTimer(400 * time.Microsecond)
	select {
	case rd = <-x.n.Ready():
		tm.Stop()
	case <-tm.C:
		c.checkPanic()
		return false
	}
	if !raft.IsEmptyHardState(rd.HardState) {
		hs := rd.HardState
		if l := x.lastHS; l != nil {
			if hs.GetTerm() < l.GetTerm() || hs.GetCommit() < l.GetCommit() || (hs.GetTerm() == l.GetTerm() && l.GetVote() != 0 && hs.GetVote() != l.GetVote()) {
				c.fail("hardstate_not_monotone", "node %d exposed hard state %v after %v", x.id, hs, l)
			}
		}
		x.lastHS = hs
		if hs.GetCommit() > c.maxCom {
			c.maxCom = hs.GetCommit()
		}
	}
	if !raft.IsEmptySnap(rd.Snapshot) {
		if err := x.ms.ApplySnapshot(rd.Snapshot); err != nil {
			c.fail("snapshot_out_of_date", "node %d: snapshot %d handed for persistence: %v", x.id, rd.Snapshot.GetMetadata().GetIndex(), err)
		}
		x.applied = rd.Snapshot.GetMetadata().GetIndex()
		x.cs = rd.Snapshot.GetMetadata().GetConfState()
		c.classes["node.snapshot_installed"] = true
	}
	if err := x.ms.Append(rd.Entries); err != nil {
		c.fail("append_error", "node %d: Append: %v", x.id, err)
	}
	if !raft.IsEmptyHardState(rd.HardState) {
		_ = x.ms.SetHardState(rd.HardState)
	}
	for _, m := range rd.Messages {
		c.net = append(c.net, clone(m))
	}
	for _, e := range rd.CommittedEntries {
		if e.GetIndex() != x.applied+1 {
			c.fail("apply_gap", "node %d is handed committed entry %d after applying %d", x.id, e.GetIndex(), x.applied)
		}
		x.applied = e.GetIndex()
		if first := c.reg[e.GetIndex()]; first == nil {
			c.reg[e.GetIndex()] = proto.Clone(e).(*pb.Entry)
		} else if first.GetTerm() != e.GetTerm() || first.GetType() != e.GetType() || !bytes.Equal(first.GetData(), e.GetData()) {
			c.fail("applied_differs", "node %d applies (%d,%d,%q) at an index where (%d,%d,%q) was applied first", x.id, e.GetIndex(), e.GetTerm(), e.GetData(), first.GetIndex(), first.GetTerm(), first.GetData())
		}
		switch e.GetType() {
		case pb.EntryNormal:
			if len(e.GetData()) > 0 {
				p := c.props[string(e.GetData())]
				if p == nil {
					c.fail("invented_entry", "node %d applies payload %q that nobody proposed", x.id, e.GetData())
				}
				if p.outcome == "dropped" {
					c.fail("dropped_but_applied", "proposal %q returned ErrProposalDropped but is applied at index %d", e.GetData(), e.GetIndex())
				}
			}
		case pb.EntryConfChangeV2:
			cc := &pb.ConfChangeV2{}
			if err := proto.Unmarshal(e.GetData(), cc); err != nil {
				c.fail("conf_unmarshal", "%v", err)
			}
			c.call("ApplyConfChange", func() { x.cs = x.n.ApplyConfChange(cc) })
			c.classes["node.conf_applied"] = true
		case pb.EntryConfChange:
			cc := &pb.ConfChange{}
			if err := proto.Unmarshal(e.GetData(), cc); err != nil {
				c.fail("conf_unmarshal", "%v", err)
			}
			c.call("ApplyConfChange", func() { x.cs = x.n.ApplyConfChange(cc) })
			c.classes["node.conf_applied"] = true
		}
	}
	for _, rs := range rd.ReadStates {
		floor, ok := c.reads[string(rs.RequestCtx)]
		if !ok {
			c.fail("read_unknown_ctx", "node %d reports a read state with context %q nobody issued", x.id, rs.RequestCtx)
		}
		if rs.Index < floor {
			c.fail("read_stale", "node %d: read %q answered with index %d, commit %d had been exposed when it was issued", x.id, rs.RequestCtx, rs.Index, floor)
		}
		c.classes["node.read_answered"] = true
	}
	c.call("Advance", x.n.Advance)
	c.logf("Ready(%d e%d c%d m%d)", x.id, len(rd.Entries), len(rd.CommittedEntries), len(rd.Messages))
	return true
}

func (c *cluster) drain(rounds int) {
	for r := 0; r < rounds; r++ {
		did := false
		for _, x := range c.nodes {
			for x.up && c.ready(x) {
				did = true
			}
		}
		msgs := c.net
		c.net = nil
		for _, m := range msgs {
			if t := c.nodes[m.GetTo()-1]; t.up {
				c.step(t, m)
				did = true
			}
		}
		if !did {
			return
		}
	}
}

func nodeProp(rep *report.R) func(*rapid.T) {
	return func(rt *rapid.T) {
		c := newCluster(rt)
		defer c.stopAll()
		// prelude (drawn): most interesting histories start from an elected
		// leader
		if rapid.IntRange(0, 4).Draw(rt, "prelude") > 0 {
			l := c.nodes[rapid.IntRange(0, 2).Draw(rt, "first")]
			ctx, cancel := ctxFor(300 * time.Millisecond)
			_ = l.n.Campaign(ctx)
			cancel()
			c.logf("Campaign(%d)", l.id)
			c.drain(8)
		}
		steps := rapid.IntRange(5, 60).Draw(rt, "steps")
		pick := func(label string) *nn { return c.nodes[rapid.IntRange(0, 3).Draw(rt, label)] }
		for i := 0; i < steps; i++ {
			op := rapid.IntRange(0, 26).Draw(rt, "op")
			x := pick("node")
			switch {
			case op <= 3:
				if x.up {
					k := rapid.IntRange(1, 6).Draw(rt, "ticks")
					for j := 0; j < k; j++ {
						c.call("Tick", x.n.Tick)
					}
					c.status(x) // let node.run consume them
					c.logf("Tick(%d x%d)", x.id, k)
				}
			case op <= 7:
				if x.up {
					c.ready(x)
				}
			case op <= 11:
				if len(c.net) > 0 {
					k := rapid.IntRange(0, len(c.net)-1).Draw(rt, "msg")
					if rapid.IntRange(0, 3).Draw(rt, "fifo") > 0 {
						k = 0
					}
					m := c.net[k]
					dup := rapid.IntRange(0, 9).Draw(rt, "dup") == 0 && m.GetType() != pb.MsgProp
					if !dup {
						c.net = append(c.net[:k:k], c.net[k+1:]...)
					}
					if t := c.nodes[m.GetTo()-1]; t.up {
						c.step(t, clone(m))
						c.logf("Deliver(%v %d->%d)", m.GetType(), m.GetFrom(), m.GetTo())
					}
				}
			case op == 12:
				if len(c.net) > 0 {
					k := rapid.IntRange(0, len(c.net)-1).Draw(rt, "msg")
					c.logf("Drop(%v)", c.net[k].GetType())
					c.net = append(c.net[:k:k], c.net[k+1:]...)
				}
			case op <= 15:
				if x.up {
					c.propose(x, rapid.SampledFrom([]int{0, 4, 40, 150}).Draw(rt, "size"))
				}
			case op == 16:
				if x.up {
					ctx, cancel := ctxFor(300 * time.Millisecond)
					_ = x.n.Campaign(ctx)
					cancel()
					c.logf("Campaign(%d)", x.id)
				}
			case op == 17:
				if x.up {
					c.seq++
					rc := fmt.Sprintf("r%d", c.seq)
					c.reads[rc] = c.maxCom
					ctx, cancel := ctxFor(300 * time.Millisecond)
					_ = x.n.ReadIndex(ctx, []byte(rc))
					cancel()
					c.logf("ReadIndex(%d %s)", x.id, rc)
				}
			case op == 18:
				if x.up {
					// the spare node 4 comes and goes as a learner: valid
					// whatever the current configuration is
					cc := &pb.ConfChangeV2{Changes: []*pb.ConfChangeSingle{{Type: pb.ConfChangeAddLearnerNode.Enum(), NodeId: new(uint64(4))}}}
					if rapid.Bool().Draw(rt, "remove") {
						cc.Changes[0].Type = pb.ConfChangeRemoveNode.Enum()
					}
					if st, ok := c.status(x); ok && st.Lead != raft.None {
						ctx, cancel := ctxFor(300 * time.Millisecond)
						var err error
						if rapid.Bool().Draw(rt, "v1") {
							err = x.n.ProposeConfChange(ctx, &pb.ConfChange{Type: cc.Changes[0].Type, NodeId: new(uint64(4))})
						} else {
							err = x.n.ProposeConfChange(ctx, cc)
						}
						cancel()
						c.logf("ProposeConfChange(%d %v)=%v", x.id, cc.Changes[0].GetType(), err)
					}
				}
			case op == 19:
				if x.up {
					to := pick("to")
					ctx, cancel := ctxFor(300 * time.Millisecond)
					if st, ok := c.status(x); ok && st.Lead != raft.None {
						x.n.TransferLeadership(ctx, st.Lead, to.id)
						c.logf("TransferLeadership(%d: %d->%d)", x.id, st.Lead, to.id)
					}
					cancel()
				}
			case op == 20:
				if x.up {
					c.stop(x)
					c.logf("Stop(%d)", x.id)
					c.classes["node.restart"] = true
				} else {
					c.start(x)
					c.logf("Restart(%d applied=%d)", x.id, x.applied)
				}
			case op == 22:
				// the remaining local calls of the Node interface
				if x.up {
					ctx, cancel := ctxFor(300 * time.Millisecond)
					switch rapid.IntRange(0, 2).Draw(rt, "misc") {
					case 0:
						_ = x.n.ForgetLeader(ctx)
						c.logf("ForgetLeader(%d)", x.id)
					case 1:
						to := pick("peer")
						c.call("ReportUnreachable", func() { x.n.ReportUnreachable(to.id) })
						c.logf("ReportUnreachable(%d,%d)", x.id, to.id)
					default:
						to := pick("peer")
						st := raft.SnapshotFinish
						if rapid.Bool().Draw(rt, "fail") {
							st = raft.SnapshotFailure
						}
						c.call("ReportSnapshot", func() { x.n.ReportSnapshot(to.id, st) })
						c.logf("ReportSnapshot(%d,%d,%v)", x.id, to.id, st)
					}
					cancel()
				}
			case op >= 23:
				c.drain(rapid.IntRange(1, 4).Draw(rt, "rounds"))
				if x.up && op >= 25 {
					c.propose(x, rapid.SampledFrom([]int{0, 4, 40, 150}).Draw(rt, "size"))
				}
			default:
				if x.up {
					// compaction at the application's applied index
					if fi, _ := x.ms.FirstIndex(); x.applied > fi+1 {
						if _, err := x.ms.CreateSnapshot(x.applied, x.cs, nil); err == nil {
							_ = x.ms.Compact(x.applied)
							c.logf("Compact(%d @%d)", x.id, x.applied)
						}
					}
				}
				c.drain(3)
			}
			c.checkPanic()
		}
		// let things settle a bit so that accepted proposals get applied
		for _, x := range c.nodes {
			if !x.up {
				c.start(x)
			}
		}
		for r := 0; r < 4; r++ {
			for _, x := range c.nodes {
				for j := 0; j < 6; j++ {
					c.call("Tick", x.n.Tick)
				}
				c.status(x)
			}
			c.drain(6)
		}
		c.checkPanic()
		// C20: nothing duplicated (MsgProp is never duplicated by this network)
		seen := map[string]int{}
		for _, e := range c.reg {
			if e.GetType() == pb.EntryNormal && len(e.GetData()) > 0 {
				seen[string(e.GetData())]++
			}
		}
		applied := 0
		if len(seen) >= 2 {
			c.classes["node.two_proposals_applied"] = true
		}
		for p, k := range seen {
			applied++
			if k > 1 {
				c.fail("duplicated", "proposal %q is in the committed log %d times", p, k)
			}
		}
		var cls []string
		for k := range c.classes {
			cls = append(cls, k)
		}
		rep.Case(applied >= 2 && (c.classes["node.restart"] || c.classes["node.conf_applied"] || c.classes["node.proposal_dropped"] || c.classes["node.snapshot_installed"]),
			report.Digest(strings.Join(c.trace, ";")), cls, func() string { return strings.Join(c.trace, " ; ") })
	}
}

const ruleNode = "raft.Node level: four real Nodes (goroutines; three voters and a spare that comes and goes as a learner) driven by one harness goroutine whose operations are rapid draws (Tick, Ready handled in the documented order + Advance, deliver/duplicate/drop of sent messages, Propose, ProposeConfChange V1/V2, Campaign, ReadIndex, TransferLeadership, ForgetLeader, ReportUnreachable, ReportSnapshot, Stop/RestartNode, compaction); oracles over the history: applied entries agree across nodes and incarnations and are gap-free, every applied payload was proposed, at most once, and never after ErrProposalDropped, exposed hard states are monotone, read states carry an issued context and an index not below the commit index exposed when issued, no logger panic inside node.run; non-trivial = at least two proposals applied and a restart, conf change, dropped proposal or snapshot install happened; distinct = digest of the operation history"

func TestNodeAPI(t *testing.T) {
	rep := report.New(reportAs(), ruleNode)
	defer rep.Write()
	rapid.Check(t, nodeProp(rep))
}
