#!/usr/bin/env python3
"""Generates /verif/MANIFEST.json from the table below (single source of truth)."""
import json, subprocess

SIM_NOTE = ("Trusted base: the harness's application model (DESIGN.md section 3), its network model (only genuinely sent messages), "
            "the reference models in harness/refmodel, and the build-tagged read-only hooks. A pass means no counterexample in the "
            "generated histories of bounded size (<=5 nodes, bounded actions per case); it is not a proof of absence.")

def sim(pid, text, technique, ref, category="exploration"):
    return dict(property_id=pid, engine="SIM", technique=technique,
                level_claimed=dict(category=category, text=text, design_ref=ref), level_note=SIM_NOTE)

CHECKS = [
 sim("C01", "Generated cluster histories (rapid stateful generation, 8-16 shards) with an append-only registry of committed entries and a hash-chain state machine as oracle: every entry handed out for application anywhere, in any incarnation, must equal the first one observed at that index; snapshots must state the committed prefix.",
     "property-based testing: deterministic cluster simulation driven by rapid, invariant over the history (committed-entry registry + state-machine hash chain)", "DESIGN.md 5/C01"),
 sim("C02", "Generated election-heavy histories; oracles: one (id,incarnation) leader per term, one candidate per (voter,term) at vote release with durable vote, up-to-date rule on every granted vote, quorum of delivered grants (reference majority function) at every transition to leader.",
     "property-based testing: rapid-driven cluster simulation, invariants over the election history with a reference majority model", "DESIGN.md 5/C02"),
 sim("C03", "After every action the touched node's logical log is compared with a global (index,term) -> (content, predecessor term) registry (equivalent to pairwise log matching by induction); contiguity and term monotonicity are checked directly; every MsgApp on the wire is checked the same way. Part of the check is also the single-node log driver (harness/logm L3: one RawNode with AsyncStorageWrites fed by scripted, possibly stale leaders and compared step by step with a reference follower), run under this property for the clauses it decides.",
     "property-based testing: rapid-driven cluster simulation, log-matching invariant via a global entry registry", "DESIGN.md 5/C03"),
 sim("C04", "On every transition to leader the new leader's log is compared with every entry committed in an earlier term; every log mutation is checked not to replace or truncate a committed entry the node held; entry content is compared, not only (index, term); entries that some node reported committed at an index where another entry was committed first count as well.",
     "property-based testing: rapid-driven cluster simulation, leader-completeness invariant against the committed registry", "DESIGN.md 5/C04"),
 sim("C05", "Two generated searches with one oracle. (a) Crash-dominated random histories with crash points between all Ready sub-steps and storage-thread steps. (b) Single-crash fault enumeration: rapid draws a crash-free base schedule whose Ready sub-steps and storage-thread steps are separate actions, and it is replayed once for every (action boundary, node, crash variant in {plain, partial append, lost un-synced hard state, both}), each followed by a restart and a drain - complete per base schedule, base schedules sampled. Oracle: at the instant a promise-carrying message is handed to the network the sender's durable (fsynced) storage, owned by the harness, must contain the promised state; a leader's term must be durable while it acts as leader; C01-C04 monitors stay on across crashes. Part of the check is also the single-node log driver (harness/logm L3: one RawNode with AsyncStorageWrites fed by scripted, possibly stale leaders and compared step by step with a reference follower), run under this property for the clauses it decides.",
     "property-based testing with fault injection: rapid-drawn crash points plus complete single-crash enumeration over rapid-generated base schedules (recorded-draw replay), release-time durability oracle on harness-owned storage", "DESIGN.md 5/C05 and 11.1", category="fault_enumeration"),
 sim("C06", "At every leader commit advance the entry must be of the leader's term and durably held by a reference-computed majority of each voter set (read from harness-owned storages); commit <= last index everywhere; follower commit never beyond any leader's commit nor off the committed prefix.",
     "property-based testing: rapid-driven cluster simulation, durable-quorum oracle computed from the nodes' storages", "DESIGN.md 5/C06"),
 sim("C07", "Exposed hard states within an incarnation and persisted hard states over the whole life are checked for monotone term/commit and one vote per term; after a Ready is taken the last exposed hard state equals the node's current one; after restart the node resumes exactly the durable hard state and never sends a message below it.",
     "property-based testing: rapid-driven cluster simulation with crash/restart, monotonicity invariants over exposed and persisted hard-state sequences", "DESIGN.md 5/C07"),
 sim("C08", "A per-incarnation cursor model of the apply stream: each batch starts at the cursor, is contiguous, within commit, never overlaps a pending snapshot; async batches must be in the durable log. Part of the check is also the single-node log driver (harness/logm L3: one RawNode with AsyncStorageWrites fed by scripted, possibly stale leaders and compared step by step with a reference follower), run under this property for the clauses it decides.",
     "property-based testing: rapid-driven cluster simulation, cursor model of the apply stream", "DESIGN.md 5/C08"),
 sim("C09", "Every delivered MsgSnap is classified (must-not-install / may install) from the receiver's pre-state and the post-state is checked; every MsgSnap put on the wire is compared with the committed registry (index, term, membership, state).",
     "property-based testing: rapid-driven cluster simulation with aggressive compaction, pre/post-state oracle for snapshot delivery", "DESIGN.md 5/C09"),
 sim("C10", "Every ConfState returned by ApplyConfChange and every active config is compared with an independent set-based reference model folded over the committed conf-change entries; leaders' own-term conf entries are checked for one-at-a-time, campaigns for no known-committed unapplied change, elections, commits and read confirmations for joint quorums, auto-leave for its precondition.",
     "property-based testing: rapid-driven cluster simulation with conf-change-heavy generator, reference configuration model as oracle", "DESIGN.md 5/C10"),
 sim("C11", "Every ReadState is checked end-to-end (own context, index >= highest commit index handed out in any Ready when the read was issued) and at the leader (leader role, own-term commit, heartbeat acks causally after receipt from a reference-computed majority unless sole voter).",
     "property-based testing: rapid-driven cluster simulation with partitions and competing elections, history invariant with causal message tracking", "DESIGN.md 5/C11"),
 sim("C14", "Union-profile generated histories following the documented contract; every call into raft and MemoryStorage is wrapped in recover(); any panic is a violation. The goroutine wrapper raft.Node (node.go), which the simulator bypasses, is driven separately: four real Nodes, operations drawn by rapid, safety-only oracles (harness/nodeapi); a logger panic inside node.run is a violation.",
     "property-based testing / robustness fuzzing of the RawNode API under a contract-respecting generated application and network", "DESIGN.md 5/C14"),
 sim("C16", "Model of outstanding entry-bearing appends per (leader, follower, replicate-epoch) independent of Inflights; encoded size of every multi-entry MsgApp; no appends while a snapshot is pending; windowed uncommitted-size accounting (a window ends at every apply acknowledgement). Plus tracker-level models: Inflights (ring buffer of every size, bursts, wrap-around, byte limit) and Progress (state machine, pause flag, rejections) against reference models written from their doc comments (harness/pure TestC16Flow).",
     "property-based testing: rapid-driven cluster simulation with tiny limits, independent flow-control model as oracle", "DESIGN.md 5/C16"),
 sim("C17", "PreVote gate (delivered pre-vote grants for exactly the new term from a reference-computed majority before any term-raising campaign), MsgPreVote never changes (term, vote), one-directional lease oracle, bounded CheckQuorum step-down.",
     "property-based testing: rapid-driven cluster simulation with mixed PreVote/CheckQuorum nodes, invariants over the election history", "DESIGN.md 5/C17"),
 sim("C20", "Every proposal carries a unique tag; every new (index,term) entry anywhere must carry exactly a proposed payload, at most once per delivery of the proposal to a leader; dropped proposals append nothing; batch order and adjacency; accounting of empty entries. The same ledger is kept for proposals made through raft.Node.Propose on four real Nodes (harness/nodeapi): applied payloads were proposed, at most once, never after ErrProposalDropped.",
     "property-based testing: rapid-driven cluster simulation, proposal ledger as oracle over every log", "DESIGN.md 5/C20"),
]

CHECKS.append(sim("C15", "Bounded liveness from sampled reachable states: a chaotic generated prefix, then a fault-free suffix (members of the committed config running, removed nodes stopped, all messages delivered, snapshot outcomes reported, round-robin ticks) after which one leader, equal logs/commit/applied, empty unstable, no auto-leave joint config, no pending transfer, all progress in StateReplicate and every proposal accepted by the leader in the second half committed and applied everywhere are required. Not a liveness proof.",
     "property-based testing: rapid-generated fault prefix + deterministic fault-free suffix, convergence oracle (bounded liveness)", "DESIGN.md 5/C15"))

PURE_NOTE = ("Trusted base: the reference models in harness/refmodel (a few lines each, written from the property text). The exhaustive part covers the stated "
             "small domain completely; beyond it inputs are sampled.")
CHECKS += [
 dict(property_id="C12", engine="PURE", technique="property-based testing against a reference model: exhaustive enumeration of a small domain plus rapid-generated large/hostile inputs, with metamorphic relations",
      level_claimed=dict(category="exploration", text="quorum.MajorityConfig/JointConfig are compared with a reference definition (largest index acked by a strict majority; Won/Lost/Pending) on every voter set over ids {1..6} x every ack/vote vector (joint: every pair of sets over {1..4}), and on rapid-generated sets up to 15 members with hostile ids/indexes; plus monotonicity and order-independence relations.", design_ref="DESIGN.md 5/C12"),
      level_note=PURE_NOTE),
 dict(property_id="C13", engine="PURE", technique="model-based property testing: rapid stateful programs of conf changes against an independent set-based reference model, plus bounded exhaustive closure (BFS) of the reachable configuration space",
      level_claimed=dict(category="exploration", text="confchange.Changer (dispatched like raft.applyConfChange) is compared with an independent reference model on accept/reject and result, with the listed invariants, input purity and the ConfState/Restore round trip through the wire, on generated programs over ids {0..6} (a quarter of the operations are direct Changer.Simple/EnterJoint/LeaveJoint calls with arbitrary singles) and on the complete reachable space over ids {1..3} (quick) / {1..4} (thorough) with all changes of <=2 singles.", design_ref="DESIGN.md 5/C13"),
      level_note=PURE_NOTE),
]

CHECKS.append(dict(property_id="C18", engine="LOG", technique="model-based property testing: rapid-generated operation programs against an abstract log (MemoryStorage; raftLog via VerifLog with a lagging write queue; one async RawNode against a scripted consistent cluster and a reference follower), plus exhaustive enumeration of short MemoryStorage programs",
      level_claimed=dict(category="exploration", text="Three drivers compare every query (first/last index, term-at for all indexes, full and size-limited ranges, error codes, append-safety) after every mutation with an abstract log: L1 MemoryStorage through its public API (also every legal program of length <=4/5 over a small alphabet), L2 the combined stable+unstable view with stale/lost/reordered persistence acks filtered like raft.Step, L3 a real RawNode with AsyncStorageWrites whose storage threads lag arbitrarily while a scripted tree of leaders overwrites its tail (the ABA shape) - compared with a textbook reference follower.", design_ref="DESIGN.md 5/C18"),
      level_note="Trusted base: the abstract log / reference follower models in harness/logm, the script's leader-completeness rule, and the pass-through VerifLog hook."))

CHECKS.append(dict(property_id="C19", engine="REPLAY", technique="differential property-based testing: every generated simulator case is re-executed from its recorded draw sequence (in-process, and in a child process for a sample) and the complete output traces are compared",
      level_claimed=dict(category="exploration", text="Each generated cluster history (up to 10 nodes, so that sets larger than 7 are iterated) is run twice from one recorded sequence of draws, and every 8th case a third time in a child process; every Ready (field by field, emission order, deterministic marshalling), every Step error and a state summary after every call must be identical. A probabilistic detector of map-order / pointer-order / timing dependence.", design_ref="DESIGN.md 5/C19"),
      level_note="Trusted base: the simulator is itself deterministic given its draws; election timeouts are harness inputs written through the build-tagged setter before every Tick."))

NOT_YET = {
}

def main():
    hooks_commits = subprocess.run(["git", "-C", "/repo", "log", "--format=%H", "--grep=^verif:"], capture_output=True, text=True).stdout.split()
    checks = []
    claimed = set()
    for c in CHECKS:
        pid = c["property_id"]
        claimed.add(pid)
        c = dict(c)
        c["quick_cmd"] = f"bin/check {pid} --tier quick"
        c["thorough_cmd"] = f"bin/check {pid} --tier thorough"
        c["evidence_file"] = f"/verif/evidence/{pid}.json"
        c["replay_cmd_template"] = f"bin/check {pid} --replay {{path}}"
        checks.append(c)
    man = dict(
        version=1,
        setup_cmd="sh /verif/bin/setup",
        hooks=dict(guard="verif (Go build tag)", enable="go test -tags verif (the harness module replaces go.etcd.io/raft/v3 with /repo, so every check recompiles raft from the working tree with the tag on)",
                   baseline_off_cmd="cd /repo && GOFLAGS=-mod=mod go test -vet=off -count=1 ./...",
                   source_commits=hooks_commits, add_only=True),
        engines=[
            dict(name="SIM", path="harness/sim", serves_properties=sorted(p for p in claimed if p not in ("C12","C13","C18","C19")),
                 kind_free_text="deterministic cluster simulator over RawNode; every choice is a rapid draw; monitors are invariants over the history"),
            dict(name="REPLAY", path="harness/replay", serves_properties=["C19"],
                 kind_free_text="determinism differ: the whole simulation is re-run from recorded draws in-process and in a child process"),
            dict(name="LOG", path="harness/logm", serves_properties=["C18", "C03", "C05", "C08"],
                 kind_free_text="model-based tests of MemoryStorage, raftLog (VerifLog hook) and a single async RawNode against an abstract log / reference follower"),
            dict(name="PURE", path="harness/pure", serves_properties=["C12", "C13", "C16"],
                 kind_free_text="function-level property tests against reference models (harness/refmodel); exhaustive small domains + rapid-generated inputs"),
            dict(name="NODE", path="harness/nodeapi", serves_properties=["C14", "C20"],
                 kind_free_text="four real raft.Node instances (goroutines) driven by one harness goroutine whose operations are rapid draws; safety-only oracles over the history (the schedule inside node.run is not fully owned)"),
        ],
        checks=checks,
        not_applicable=[dict(property_id=k, reason=v) for k, v in sorted(NOT_YET.items()) if k not in claimed],
        notes="All checks: exit 0 = held on everything explored, 1 = violation (VIOLATION line), 2 = infrastructure problem. VERIF_SEED selects the rapid seeds (seed = 1 + VERIF_SEED*1000 + shard).",
    )
    json.dump(man, open("/verif/MANIFEST.json", "w"), indent=1)
    print("wrote MANIFEST.json with", len(checks), "checks")

main()
